def multipletests(*args, **kwargs):
    raise NotImplementedError("statsmodels is not installed; /verif shim only")
