"""Import shim only: satisfies xeofs' check_needed_module("statsmodels") so that the real
cross-set code (xeofs.cross.*) can be constructed in this sandbox, where statsmodels is not
installed. Nothing here computes anything; see DESIGN.md section 1."""
__version__ = "0.0.0-verif-shim"
