#!/usr/bin/env python3
"""register_mutant.py <mutant dir> <seeded id> <property> <eval log> : copy a confirmed seeded change into
/verif/seeded/<id>/ (patch.diff, demo.py, notes.md) and write meta.json from the evaluation log."""
import json, os, re, shutil, sys
src, sid, prop, log = sys.argv[1:5]
dst = os.path.join("/verif/seeded", sid)
os.makedirs(dst, exist_ok=True)
for f in ("patch.diff", "demo.py", "notes.md"):
    if os.path.exists(os.path.join(src, f)):
        shutil.copy(os.path.join(src, f), os.path.join(dst, f))
stubs = os.path.join(os.path.dirname(src.rstrip("/")), "stubs")
text = open(log).read()
tests = re.search(r"(\d+ passed, \d+ skipped)", text)
demo = re.search(r"demo exit clean=(\d+) mutated=(\d+)", text)
chk = re.search(r"check exit=(\d+)", text)
cmd = re.search(r"== mutated: (\./check .*)", text)
sigs = sorted(set(re.findall(r"signature: (.*)", text)))
summ = re.search(r"^\[C1\d .*", text, re.M)
notes = open(os.path.join(dst, "notes.md")).read() if os.path.exists(os.path.join(dst, "notes.md")) else ""
meta = {
    "id": sid, "property": prop,
    "written_by": "independent sub-agent given only the property text and a scratch worktree",
    "needs_to_manifest": (sys.argv[5] if len(sys.argv) > 5 else ""),
    "files_touched": sorted(set(re.findall(r"^\+\+\+ b/(\S+)", open(os.path.join(dst, "patch.diff")).read(), re.M))),
    "confirmed": {
        "pinned_test_suite_with_change": tests.group(1) if tests else None,
        "demo_exit_clean_tree": int(demo.group(1)) if demo else None,
        "demo_exit_with_change": int(demo.group(2)) if demo else None,
    },
    "check_run": {"cmd": cmd.group(1) if cmd else None, "exit": int(chk.group(1)) if chk else None,
                  "violation_signatures": sigs[:8], "summary": summ.group(0) if summ else None},
    "caught": bool(chk and chk.group(1) == "1"),
    "how_to_rerun": f"tools/eval_mutant.sh <scratch worktree of /repo> /verif/seeded/{sid} {prop}",
}
json.dump(meta, open(os.path.join(dst, "meta.json"), "w"), indent=1)
print(json.dumps(meta["check_run"], indent=1), meta["caught"])
