#!/bin/sh
# eval_wave.sh <worktree> <property> <id prefix, e.g. C14-q>  : evaluate _mutant/1..3 of a sub-agent's worktree, one after the other
WT="$1"; PROP="$2"; PFX="$3"
for i in 1 2 3; do
  [ -f "$WT/_mutant/$i/patch.diff" ] || continue
  LOG="/tmp/eval-$PFX$i.log"
  /verif/tools/eval_mutant.sh "$WT" "$WT/_mutant/$i" "$PROP" > "$LOG" 2>&1
  echo "== $PFX$i"; grep -E "baseline|passed|failed|demo exit|^\[C1|check exit|VIOLATION" "$LOG" | cut -c1-260
done
