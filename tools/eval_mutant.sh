#!/bin/sh
# eval_mutant.sh <worktree> <mutant dir (patch.diff, demo.py)> <property> [tier] [seed]
# Confirms a seeded change (tests pass, demo fails with / passes without) and runs the registered check
# against the changed tree (through XEOFS_VERIF_REPO, so /repo itself stays untouched).
WT="$1"; MD="$2"; PROP="$3"; TIER="${4:-quick}"; SEED="${5:-0}"
set -u
cd "$WT" || exit 9
git checkout -q -- xeofs
git checkout -q --detach "${BASE:-$(git -C /repo rev-parse HEAD)}"    # same baseline as /repo (incl. later fix: commits) unless BASE is given
echo "baseline $(git rev-parse --short HEAD)"
# the demonstrations of cross-set changes expect the statsmodels import shim at <worktree>/_mutant/stubs
[ -e "$WT/_mutant/stubs" ] || { mkdir -p "$WT/_mutant" && ln -sfn /verif/stubs "$WT/_mutant/stubs"; }
echo "== clean: demo"; /venv/bin/python "$MD/demo.py" > /tmp/em_clean.$$.out 2>&1; C=$?; tail -2 /tmp/em_clean.$$.out
git apply "$MD/patch.diff" || { echo "patch does not apply"; exit 9; }
echo "== mutated: test suite"; /venv/bin/python -m pytest -q -p no:cacheprovider -n 8 --timeout=900 2>&1 | tail -1
echo "== mutated: demo"; /venv/bin/python "$MD/demo.py" > /tmp/em_mut.$$.out 2>&1; M=$?; tail -3 /tmp/em_mut.$$.out
echo "demo exit clean=$C mutated=$M"
echo "== mutated: ./check $PROP $TIER (VERIF_SEED=$SEED)"
cd /verif && XEOFS_VERIF_REPO="$WT" VERIF_SEED="$SEED" ./check "$PROP" "$TIER" > /tmp/em_check.$$.out 2>&1; R=$?
grep -v "^Warning" /tmp/em_check.$$.out | grep -v "^KNOWN" | cut -c1-300 | tail -12
echo "check exit=$R"
cd "$WT" && git checkout -q -- xeofs
