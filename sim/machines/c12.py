"""C12 - dask-backed and deferred fits equal the in-memory fit and stay lazy until asked (DESIGN 4).

System: one model (optionally a rotator on top), one data set in two forms - in memory and
dask-backed with a drawn chunk layout - and the simulated scheduler as the only dask scheduler:
worker count, task order and task faults are drawn from the run seed.
"""
from __future__ import annotations

import copy

import dask
import numpy as np
import xarray as xr

from .. import core, gen, models, oracle, sched, seeds, space
from ..core import RunResult, Violation
from .c14 import _nonconv, _qname

PROP = "C12"
TOL = 1e-6
TOL_CLASS = {"OPA": 1e-4}     # OPA inverts the square root of the lag-0 covariance of the PCs: conditioning
TOL_S1 = 1e-12
SIGN_FREE = ("SparsePCA", "OPA")   # classes that fix no sign: SparsePCA (none at all), OPA (flip_signs=False)

SINGLE = ["EOF", "EOF", "EOF", "ExtendedEOF", "OPA", "POP", "SparsePCA"]
CROSS = ["MCA", "MCA", "CCA", "RDA", "CPCCA", "CPCCA"]


# ----------------------------------------------------------------------------------------------
def generate(seed: int, tier: str = "quick") -> dict:
    rng = seeds.stream(seed, "cfg")
    fam = rng.choice(["single"] * 6 + ["cross"] * 4)
    name = rng.choice(SINGLE if fam == "single" else CROSS)
    spec = models.SPECS[name]
    deferred = rng.random() < 0.55
    cfg: dict = {"property": PROP, "seed": seed, "spec": name, "lazy": True, "deferred": deferred}
    lay = dict(max_features=12 if fam == "single" else 8, allow_nan=False, allow_mi=rng.random() < 0.15,
               attrs=False, min_samples=14, max_samples=28)
    if spec.time_ordered:
        lay["allow_mi"] = False
    tiny = rng.random() < 0.1
    if tiny:
        lay.update(max_features=4, min_samples=8, max_samples=10)
    chunks = space.draw_chunks(rng, tiny=tiny)
    descs = {}

    def condition(d):
        # dask's svd_compressed as configured by xeofs (4 power iterations without re-orthonormalisation)
        # is accurate to about eps * kappa**9 only (measured); C12 allows "the accuracy of the randomised
        # solver", so the data of this machine has a flat, full-rank spectrum and a small mean
        d["ratio"] = rng.choice([0.8, 0.85, 0.9])
        d["noise"] = 0.0
        d["offset"] = rng.choice([0.0, 0.5, 1.0]) * d.get("scale", 1.0)
        return d
    if fam == "single":
        d = condition(space.draw_layout(rng, **lay))
        if spec.time_ordered:
            d["sample"] = d["sample"][:1]
            d["sample"][0][1] = max(d["sample"][0][1], 18)
            d.pop("perm_seed", None)
            if d.get("multiindex") == "sample":
                d.pop("multiindex")
        if tiny:
            d["sample"] = d["sample"][:1]
            d.pop("multiindex", None) if d.get("multiindex") == "sample" else None
        descs["D0"] = d
        descs["N0"] = space.new_for(rng, d, "disjoint")
        fit = {"X": "D0", "w": None}
        if rng.random() < 0.25:
            descs["W0"] = {"kind": "weights", "of": "D0", "seed": rng.randrange(10 ** 6),
                           "dim_order": rng.choice([None, None, "rev"])}
            fit["w"] = "W0"
        new = ["N0"]
        params = models.draw_single_params(rng, spec, d, lazy=True if deferred else False)
        if spec.name == "ExtendedEOF":
            F = gen.n_features_total(d)
            if (params.get("n_pca_modes") or F) * params["embedding"] > 12:
                params["embedding"] = 2
                params["n_pca_modes"] = min(4, models._rank(d))
    else:
        dx = condition(space.draw_layout(rng, **lay))
        dy = condition(space.paired_layout(rng, dx, **lay))
        descs["X0"], descs["Y0"] = dx, dy
        k = rng.randrange(1, 2 ** 31)
        descs["NX0"] = space.new_for(seeds.stream(k, "n"), dx, "disjoint")
        descs["NY0"] = space.new_for(seeds.stream(k, "n"), dy, "disjoint")
        fit = {"X": "X0", "Y": "Y0"}
        if rng.random() < 0.2:
            descs["WX0"] = {"kind": "weights", "of": "X0", "seed": rng.randrange(10 ** 6),
                            "dim_order": rng.choice([None, None, "rev"])}
            fit["w"] = "WX0"
            if rng.random() < 0.5:
                descs["WY0"] = {"kind": "weights", "of": "Y0", "seed": rng.randrange(10 ** 6)}
                fit["wY"] = "WY0"
        new = [["NX0", "NY0"]]
        params = models.draw_cross_params(rng, spec, dx, dy, lazy=True if deferred else False)
        # fractional n_pca_modes needs the spectrum: not available lazily (documented ValueError)
        npm = params["n_pca_modes"]
        params["n_pca_modes"] = [("all" if isinstance(x, float) else x) for x in npm] if isinstance(npm, list) \
            else ("all" if isinstance(npm, float) else npm)
    if not deferred:
        params["check_nans"] = rng.random() < 0.5
    if params.get("check_nans") and not spec.time_ordered and rng.random() < 0.35:
        # entirely missing features / samples: the sanitiser's masks are computed from the dask data
        for k in ([("D0", "N0")] if fam == "single" else [("X0", "NX0"), ("Y0", "NY0")]):
            d0 = descs[k[0]]
            if gen.n_features_total(d0) >= 5 and d0.get("multiindex") is None:
                d0["nan_features"] = 1
                descs[k[1]]["nan_features"] = 1
                if len(d0["sample"]) == 1 and rng.random() < 0.5 and fam == "single":
                    d0["nan_samples"] = 1
    r1, r2 = rng.random(), rng.random()
    nk = "N0" if fam == "single" else "NX0"
    if params.get("check_nans") and r1 < 0.25 and gen.n_samples_total(descs[nk]) >= 3:
        descs[nk]["nan_sample_new"] = 1          # unseen data with an entirely missing sample
    if descs[nk].get("container") == "ds" and len(descs[nk]["fields"]) >= 2 and r2 < 0.3:
        descs[nk]["var_order"] = "rev"           # unseen Dataset with its variables in another order
    # dask's exact SVD (Whitener with alpha < 1, SparsePCA's full solver) refuses arrays chunked along both
    # dimensions; that counts as refused, not as a result, so such layouts are only drawn occasionally
    alphas = params.get("alpha", spec.fixed_alpha)
    alphas = alphas if isinstance(alphas, list) else [alphas, alphas]
    whiten = fam == "cross" and any(a is not None and a < 1.0 for a in alphas)
    needs_tall = spec.name == "SparsePCA" or whiten
    if needs_tall and rng.random() < 0.85:
        chunks = {"mode": rng.choice(["single", "sample", "sample"]), "n": chunks["n"]}
        if whiten:      # several variables / list items become several chunks along the stacked feature dim
            for k in ("X0", "Y0", "NX0", "NY0"):
                dd = descs[k]
                if dd["container"] != "da":
                    dd["container"] = "da"
                    # keep the largest field, with at least three features (two standardised features are
                    # the degenerate +-45 degree family)
                    best = max(dd["fields"], key=lambda f: int(np.prod([x[1] for x in f])))
                    best = copy.deepcopy(best)
                    if int(np.prod([x[1] for x in best])) < 3:
                        best[0][1] = 3
                    dd["fields"] = [best]
            for a_, b_ in (("X0", "NX0"), ("Y0", "NY0")):
                descs[b_]["fields"] = copy.deepcopy(descs[a_]["fields"])
            # fewer features now: keep the mode counts valid
            rk = [max(2, models._rank(descs["X0"])), max(2, models._rank(descs["Y0"]))]
            npm = params["n_pca_modes"] if isinstance(params["n_pca_modes"], list) else [params["n_pca_modes"]] * 2
            npm = [min(x, r) if isinstance(x, int) else x for x, r in zip(npm, rk)]
            params["n_pca_modes"] = npm
            up = params["use_pca"] if isinstance(params["use_pca"], list) else [params["use_pca"]] * 2
            eff = [(x if (u and isinstance(x, int)) else (r if u else gen.n_features_total(descs[k])))
                   for x, u, r, k in zip(npm, up, rk, ("X0", "Y0"))]
            params["n_modes"] = max(1, min(int(params["n_modes"]), *eff))
            if cfg.get("rot_params"):
                pass
    multi_chunk_features = chunks["mode"] in ("feature", "both", "allfeat", "elem", "all", "irregular") or chunks.get("items") or any(
        d.get("container") in ("ds", "list") for d in descs.values() if d.get("kind") != "weights")
    if params.get("solver") == "full" and multi_chunk_features and rng.random() < 0.8:
        params["solver"] = "randomized"
    # chunked twins of every data descriptor ("c:" prefix); weights stay in memory
    for k in list(descs):
        if descs[k].get("kind") == "weights":
            continue
        c = copy.deepcopy(descs[k])
        c["chunks"] = chunks
        descs["c:" + k] = c
    for wk, of in (("W0", "c:D0"), ("WX0", "c:X0"), ("WY0", "c:Y0")):
        if wk in descs:
            descs["c:" + wk] = dict(descs[wk], of=of, chunked=rng.random() < 0.5)
    # unseen data may arrive with another chunking than the training data
    r_un = rng.random()
    if r_un < 0.4:
        other = space.draw_chunks(rng, tiny=tiny)
        for k in ("c:N0", "c:NX0", "c:NY0"):
            if k in descs:
                descs[k]["chunks"] = other
    elif r_un < 0.5:
        # ... or held in memory although the model was fitted on dask-backed data
        for k in ("c:N0", "c:NX0", "c:NY0"):
            if k in descs:
                descs[k]["chunks"] = None
    gen.sanitize_descs(descs)
    cfg.update(descs=descs, fit=fit, new=new, params=params, chunks=chunks)
    cfg["rot_params"] = None
    with_rot = bool(spec.rotator) and rng.random() < 0.45
    if with_rot and fam == "single" and rng.random() < 0.7:
        # as many modes as the data allow: a rotation of 4-5 modes of a flat spectrum re-ranks them, which is
        # what exercises the post-compute sorting bookkeeping
        params["n_modes"] = max(int(params["n_modes"]), min(5, max(2, models._rank(descs["D0"]))))
    if with_rot:
        cfg["rot_params"] = models.draw_rotator_params(rng, params, lazy=True if deferred else False)
        if cfg["rot_params"]["compute"]:
            # an eager rotation of loadings that are still lazy (cross-set PCA/whitener matrices are never
            # computed by fit) evaluates a growing graph in every iteration: bound the iteration count;
            # running out of iterations is "did not converge" on both routes and is not judged
            cfg["rot_params"]["max_iter"] = rng.choice([40, 80]) if fam == "single" else rng.choice([10, 15])
    W = rng.choice([1, 1, 2, 3, 4, 8, 16])
    mix = rng.choice(["none", "none", "reexec", "transient", "stall", "all"])
    cfg["sched"] = sched.Config(W=W, reexec=0.12 if mix in ("reexec", "all") else 0.0,
                                transient=0.06 if mix in ("transient", "all") else 0.0,
                                stall=0.15 if mix in ("stall", "all") else 0.0, purity=1.0).to_json()
    cfg["fault_compute"] = None
    # (a deferred rotator's compute() is where sorting bookkeeping and loading meet: interrupted more often)
    if deferred and rng.random() < (0.6 if cfg["rot_params"] else 0.35):
        cfg["fault_compute"] = {"at": rng.randint(1, 60), "exc": rng.choice(["InjectedFault", "MemoryError", "OSError"]),
                                "call": rng.choice([1, 1, 2, 3, 4, 5])}
    cfg["fault_fit"] = None
    if not deferred and rng.random() < 0.25:
        # an eager fit on dask-backed data that is interrupted by a task failure in a drawn scheduler call, and retried
        # on the same object: the retried fit is the one compared with the in-memory fit
        cfg["fault_fit"] = {"call": rng.choice([1, 1, 2, 2, 3, 4, 6, 9, 12]), "at": rng.choice([1, 1, 2, 3, 5, 8, 20, 60]),
                            "exc": rng.choice(["InjectedFault", "MemoryError", "OSError"])}
    cfg["rot_refit_fault"] = None
    if cfg["rot_params"] and rng.random() < 0.35:
        cfg["rot_refit_fault"] = {"call": rng.choice([1, 1, 2, 3, 5, 8]), "at": rng.choice([1, 1, 2, 3, 5, 8, 20]),
                                  "exc": rng.choice(["InjectedFault", "MemoryError", "OSError"])}
    cfg["s1"] = deferred and rng.random() < (0.3 if tier == "quick" else 0.6)
    cfg["compute_twice"] = rng.random() < 0.6
    nm = int((cfg["rot_params"] or params)["n_modes"])
    qrng = seeds.stream(seed, "queries")
    cfg["handles"] = models.draw_queries(qrng, spec, fit, new, int(params["n_modes"]),
                                         k=rng.randint(1, 3), serde=False, with_input=False) if deferred else []
    if name == "POP":
        # POP's mode order within a conjugate pair and its eigenvector phase are not defined by the data: POP is
        # observed through order- and phase-free invariants only (E1), not through raw lazy handles
        cfg["handles"] = []
    cfg["handle_timing"] = [rng.choice(["now", "after_rot", "after_compute"]) for _ in cfg["handles"]]
    return cfg


def _c(i):
    return None if i is None else "c:" + i


def _cfit(fit):
    return {k: (_c(v) if isinstance(v, str) else v) for k, v in fit.items()}


def _cnew(new):
    return [[_c(x) for x in n] if isinstance(n, list) else _c(n) for n in new]


def _signfree(spec, qs):
    """SparsePCA defines no sign convention: the dask and numpy routes may legitimately differ by the sign
    of whole modes, so score arrays fed to inverse_transform must be sign-equivariant (no offset)."""
    if spec.name not in SIGN_FREE:
        return qs
    out = []
    for q in qs:
        q = copy.deepcopy(q)
        if q.get("q") == "inverse":
            q["b"] = 0.0
        out.append(q)
    return out


def _cq(q):
    """The same query against the chunked twin of every data id."""
    q = copy.deepcopy(q)
    for k in ("X", "Y"):
        if isinstance(q.get(k), str):
            q[k] = _c(q[k])
    if isinstance(q.get("src"), list):
        q["src"] = [_c(x) for x in q["src"]]
    elif isinstance(q.get("src"), str) and q["src"] != "scores":
        q["src"] = _c(q["src"])
    return q


def _opk(op):
    return op.get("op", "?")


# ----------------------------------------------------------------------------------------------
# which stored spectrum decides the mode order (near-ties there make the order ill-defined): OPA's score norms
# are equal by construction (its order comes from the decorrelation times); POP's conjugate pairs have equal
# norms and POP is observed through order-free invariants anyway
_SORT_KEYS = {"*": ("norms", "singular_values", "explained_variance", "squared_covariance"),
              "OPA": ("decorrelation_time",), "POP": ()}


def _fragile(model) -> str | None:
    """Near-ties on the *reference* that make sign or order decisions ill-defined (DESIGN 2.7)."""
    data = getattr(model, "data", {})
    for key, arr in data.items():
        if not isinstance(arr, xr.DataArray) or "mode" not in arr.dims:
            continue
        v = np.asarray(arr.values)
        if key.startswith("components") and v.ndim == 2 and not np.iscomplexobj(v):
            ax = arr.dims.index("mode")
            vm = np.moveaxis(v, ax, 0)
            for row in vm:
                row = row[~np.isnan(row)]
                if row.size == 0:
                    continue
                hi, lo = row.max(), row.min()
                if abs(abs(hi) - abs(lo)) < 1e-5 * max(abs(hi), abs(lo), 1e-300):
                    return f"sign of a mode of {key} is decided by a near-tie"
        if key in _SORT_KEYS.get(type(model).__name__, _SORT_KEYS["*"]) and v.ndim == 1:
            s = np.sort(np.abs(v))[::-1]
            if s.size > 1 and np.any(np.abs(np.diff(s)) < 1e-6 * s[0]):
                return f"two values of {key} are within 1e-6 (mode order ill-defined)"
            if s.size and s[-1] < 1e-7 * s[0]:
                return f"{key} has a numerically zero mode"
    return None


def _kappa(model) -> float:
    """Largest over smallest retained singular value reported by the reference."""
    k = 1.0
    for key in ("norms", "singular_values"):
        arr = getattr(model, "data", {}).get(key) if hasattr(model, "data") else None
        if isinstance(arr, xr.DataArray) and arr.ndim == 1 and arr.size > 1:
            v = np.abs(np.asarray(arr.values, dtype=float))
            if np.all(np.isfinite(v)) and v.min() > 0:
                k = max(k, float(v.max() / v.min()))
    return k


def _pop_invariants(m, env, fit_id):
    """Order- and phase-free observables of a POP model."""
    ev = np.asarray(oracle.materialise(m.eigenvalues()).values)
    order = np.lexsort((np.round(ev.imag, 9), np.round(ev.real, 9)))
    out = {"eigenvalues": ev[order]}
    dt = np.asarray(oracle.materialise(m.damping_times()).values)
    out["damping_times"] = np.sort(dt)
    sc = m.scores()
    out["reconstruction"] = oracle.materialise(m.inverse_transform(sc))
    return out


def execute(cfg: dict, *, stop_at_first=True, trace=False) -> RunResult:
    seed = cfg["seed"]
    spec = models.SPECS[cfg["spec"]]
    res = RunResult(seed=seed, config=cfg)
    clock = core.SimClock(seed)
    sim = sched.SimScheduler(seed, sched.Config.from_json(cfg["sched"]))
    sim.trace_events = trace
    env = models.Env(cfg["descs"])       # holds both the in-memory and the chunked objects
    deferred = cfg["deferred"]
    params = cfg["params"]
    tags = core.config_tags(cfg)
    counts = {"laziness_verdicts": 0, "fit_sched_calls": 0, "queries": 0, "handles": 0, "s1_checks": 0,
              "task_faults": 0, "refused": 0, "relaxed": 0, "inconclusive": 0, "rot_fits": 0}
    probes = set()
    opi = [0]

    def violate(inv, symptom, detail, op_kind, site=""):
        res.violations.append(Violation(PROP, inv, spec.name, symptom, detail, opi[0], op_kind, site, tags))

    def ok():
        # a laziness verdict (L0) does not stop the run: the remaining invariants are still checked, so that a
        # class with a *known* L0 finding (POP) keeps being compared with the in-memory fit
        return not any(v.invariant != "L0" for v in res.violations)

    def step(name):
        opi[0] += 1
        sim.op = f"{opi[0]}:{name}"
        res.log.append(f"op {opi[0]} {name}")

    fit = cfg["fit"]
    strict_lazy = deferred and not params.get("check_nans", True)
    for k_, d_ in cfg["descs"].items():
        if not k_.startswith("c:") or d_.get("kind") == "weights":
            continue
        ch_ = d_.get("chunks")
        if ch_ is None:
            probes.add("unseen data held in memory, model fitted on dask-backed data")
        elif ch_.get("items") and d_.get("container") in ("ds", "list") and len(d_["fields"]) >= 2:
            its = [ch_["items"][i % len(ch_["items"])] for i in range(len(d_["fields"]))]
            if "memory" in its and not all(i == "memory" for i in its):
                probes.add("mixed input: in-memory item next to dask-backed ones")
            elif len(set(its)) > 1:
                probes.add("items of one input chunked differently")
        elif ch_.get("mode") == "irregular":
            probes.add("blocks of unequal sizes")

    # ---- reference: the same class, same parameters, the same data held in memory -----------------
    with core.simulated_ambient(clock):
        with core.reference_context():
            # the reference is the *eager* in-memory fit ("a later compute() yields the eager results"): a
            # deferred in-memory fit followed by compute() would share the deferred route's bookkeeping
            # (compute() rebuilds the model from its serialised form) and hide what that route loses
            # (iterative solvers - SparsePCA, the rotations - run a fixed number of iterations when deferred and
            #  until convergence when eager; their references stay in the drawn regime)
            eager = lambda p: dict(copy.deepcopy(p), compute=True) if "compute" in p and spec.name != "SparsePCA" else copy.deepcopy(p)  # noqa: E731
            ref = spec.cls()(**eager(params))
            rout = oracle.capture(models.fit_model, spec, ref, fit, env)
            rrot = None
            rrout = None
            if rout.ok and cfg["rot_params"]:
                rrot = spec.rot_cls()(**copy.deepcopy(cfg["rot_params"]))
                rrout = oracle.capture(rrot.fit, ref)

        # ---- subject: dask-backed twin under the simulated scheduler ----------------------------------
        with dask.config.set(scheduler=sim.get):
            core.ambient_event(seed, "start", clock)
            step("fit")
            sub = spec.cls()(**copy.deepcopy(params))
            if cfg.get("fault_fit"):
                ff = cfg["fault_fit"]
                sim.cfg.permanent_at, sim.cfg.permanent_exc, sim.cfg.permanent_call = int(ff["at"]), ff["exc"], int(ff["call"])
                sim.cfg.armed_calls = 0
                fo = oracle.capture(models.fit_model, spec, sub, _cfit(fit), env)
                sim.cfg.permanent_at = None
                sim.cfg.armed_calls = 0
                if not fo.ok and fo.exc_type == ff["exc"] and "injected" in fo.exc_msg:
                    counts["task_faults"] += 1
                    counts["fit_faults"] = counts.get("fit_faults", 0) + 1
                    probes.add("eager fit interrupted by a task failure, then retried on the same object")
                res.log.append(f"  fit under an injected fault -> {fo.kind()}")
                step("fit_retry")
            mark = sim.mark()
            sout = oracle.capture(models.fit_model, spec, sub, _cfit(fit), env)
            fit_calls = sim.calls_since(mark)
            counts["fit_sched_calls"] = len(fit_calls)
            res.log.append(f"  fit -> subject {sout.kind()} reference {rout.kind()} sched_calls={len(fit_calls)}")
            if not sout.ok and sout.exc_type == "SimHarnessError":
                raise sched.SimHarnessError(sout.exc_msg)
            refused = (not sout.ok) and (sout.exc_type == "NotImplementedError" or _chunk_refusal(sout))
            if refused:
                counts["refused"] += 1         # a layout refused by dask's own SVD is not a result
                probes.add("layout refused by dask")
            elif not sout.ok and not rout.ok:
                counts["both_raise"] = counts.get("both_raise", 0) + 1   # an invalid configuration on both routes
            elif sout.kind() != rout.kind():
                violate("E1", f"outcome:{sout.kind()}!={rout.kind()}",
                        f"fit on dask-backed data -> {sout.kind()} {sout.exc_msg[:200]!r}; on the same data in memory -> {rout.kind()} {rout.exc_msg[:120]!r}", "fit")
            live = sout.ok and rout.ok and ok()
            frag = _fragile(ref) if live else None
            kappa = _kappa(ref) if live else 1.0
            kappa_tol = 1e3 * np.finfo(float).eps * kappa ** 9      # accuracy of the randomised solver
            counts["kappa_max"] = round(float(kappa), 2)
            if kappa_tol > 1e-3 and not frag:
                frag = f"spectrum of the retained modes too steep for the randomised solver (kappa={kappa:.1f})"

            def laziness(obj, calls, what):
                counts["laziness_verdicts"] += 1
                if calls:
                    c = calls[0]
                    violate("L0", "computed-during-fit",
                            f"{what} with compute=False, check_nans=False triggered {len(calls)} dask computation(s); first at {c['site']} ({c['n']} tasks)",
                            what, site=c["site"])
                    return
                for key, arr in obj.data.items():
                    if isinstance(arr, xr.DataArray) and arr.chunks is None and arr.size > 0 and key not in ("idx_modes_sorted",):
                        if key == "total_variance" and arr.ndim == 0 and False:
                            continue
                        violate("L1", "eager-result", f"after {what} with compute=False the stored result {key!r} is not dask-backed", what)
                        return

            def input_still_lazy(obj, when):
                # OPA and ExtendedEOF store *derived* arrays (PCA scores, the delay-embedded matrix) under
                # "input_data"; with compute=True those are computed on purpose and are not the input itself
                if spec.name in ("OPA", "ExtendedEOF") and not deferred:
                    return
                for key, arr in obj.data.items():
                    if key.startswith("input_data") and isinstance(arr, xr.DataArray) and arr.chunks is None:
                        violate("L2", "input-materialised", f"{key!r} inside the model is an in-memory copy {when}", when)
                        return
                    # ... nor a *persisted* copy: a dask array that can be evaluated without running a single
                    # loader task of the user's input holds every block in memory although its type says "lazy"
                    if key.startswith("input_data") and isinstance(arr, xr.DataArray) and arr.chunks is not None \
                            and when != "after the queries":
                        before = gen.LOADS[0]
                        o = oracle.capture(lambda: dask.compute(arr.data, scheduler="synchronous"))
                        counts["input_graph_checks"] = counts.get("input_graph_checks", 0) + 1
                        if o.ok and gen.LOADS[0] == before:
                            violate("L2", "input-persisted", f"{key!r} inside the model is dask-backed but evaluating it runs "
                                    f"none of the user's loader tasks: it is a persisted in-memory copy {when}", when)
                            return

            if live and strict_lazy:
                laziness(sub, fit_calls, "fit")
            if live and ok():
                input_still_lazy(sub, "after fit")

            # ---- rotator ---------------------------------------------------------------------------------
            srot = None
            if live and ok() and cfg["rot_params"]:
                step("rot_fit")
                srot = spec.rot_cls()(**copy.deepcopy(cfg["rot_params"]))
                mark = sim.mark()
                o = oracle.capture(srot.fit, sub)
                rcalls = sim.calls_since(mark)
                counts["rot_fits"] += 1
                res.log.append(f"  rot_fit -> subject {o.kind()} reference {rrout.kind()} sched_calls={len(rcalls)}")
                if _nonconv(o) or _nonconv(rrout):
                    counts["inconclusive"] += 1
                    srot = None
                elif (not o.ok) and o.exc_type == "NotImplementedError":
                    counts["refused"] += 1
                    srot = None
                elif o.kind() != rrout.kind():
                    violate("E1", f"outcome:{o.kind()}!={rrout.kind()}", f"rotator.fit on the dask-backed model -> {o.kind()} {o.exc_msg[:200]!r}; on the in-memory model -> {rrout.kind()}", "rot_fit")
                elif not o.ok:
                    srot = None
                else:
                    if strict_lazy and not cfg["rot_params"]["compute"]:
                        laziness(srot, rcalls, "rotator.fit")
                        probes.add("deferred rotator on deferred model")
                    if ok():
                        input_still_lazy(srot, "after rotator.fit")
                    frag = frag or _fragile_after(rrot)
                    if ok() and cfg.get("rot_refit_fault"):
                        # the same rotator object is fitted again and that fit is interrupted by a task failure; whatever
                        # the rotator then is, compute() on it may not load the input data; a clean refit follows
                        step("rot_refit_fault")
                        rf = cfg["rot_refit_fault"]
                        sim.cfg.permanent_at, sim.cfg.permanent_exc, sim.cfg.permanent_call = int(rf["at"]), rf["exc"], int(rf["call"])
                        sim.cfg.armed_calls = 0
                        o2 = oracle.capture(srot.fit, sub)
                        sim.cfg.permanent_at = None
                        sim.cfg.armed_calls = 0
                        res.log.append(f"  rotator refit under an injected fault -> {o2.kind()}")
                        if not o2.ok and o2.exc_type == rf["exc"] and "injected" in o2.exc_msg:
                            counts["task_faults"] += 1
                            counts["rot_refit_faults"] = counts.get("rot_refit_faults", 0) + 1
                            probes.add("rotator refit interrupted by a task failure, compute(), clean refit")
                            oracle.capture(srot.compute)
                            input_still_lazy(srot, "after an interrupted rotator refit and compute()")
                            if ok():
                                input_still_lazy(sub, "after an interrupted rotator refit and compute()")
                        if not o2.ok and ok():
                            step("rot_refit")
                            o3 = oracle.capture(srot.fit, sub)
                            if _nonconv(o3):
                                counts["inconclusive"] += 1
                                srot = None
                            elif not o3.ok:
                                violate("E1", f"outcome:{o3.kind()}!=ok", f"rotator.fit on the dask-backed model after an interrupted refit -> {o3.kind()} {o3.exc_msg[:200]!r}", "rot_refit")
                        elif _nonconv(o2):
                            counts["inconclusive"] += 1
                            srot = None

            target_s, target_r = (srot, rrot) if srot is not None else (sub, ref)
            tspec_rot = srot is not None

            # ---- lazy handles obtained now, computed later (deferred-handle timing) -------------------
            handles = []
            if live and ok() and deferred:
                for q, when in zip(_signfree(spec, cfg["handles"]), cfg["handle_timing"]):
                    step("handle")
                    h = oracle.capture(models.run_query, spec, sub, _cq(q), env)
                    # the reference sees the same query at the same point of the history (queries may
                    # leave transform-time bookkeeping behind; whether they may is C14's subject, not C12's)
                    with core.reference_context():
                        want = oracle.capture(lambda: oracle.materialise(models.run_query(spec, ref, q, env)))
                    handles.append((q, when, h, want))
                    counts["handles"] += 1

            def settle(when):
                for q, w, h, want in handles:
                    if w != when or not ok():
                        continue
                    step("handle_compute")
                    got = oracle.capture(lambda: oracle.materialise(h.value)) if h.ok else h
                    judge(got, want, q, "H5", "handle_compute")

            def judge(got, want, q, inv, opk):
                counts["queries"] += 1
                res.log.append(f"  {opk} {core.jdump(q)} -> {got.kind()} ref {want.kind()}")
                res.vlog.append(oracle.digest(got))
                if not got.ok and got.exc_type == "SimHarnessError":
                    raise sched.SimHarnessError(got.exc_msg)
                if q.get("q") == "params" and got.ok and want.ok and isinstance(got.value, dict) and isinstance(want.value, dict):
                    got.value.pop("compute", None)      # (the reference is the eager fit)
                    want.value.pop("compute", None)
                if frag:
                    counts["relaxed"] += 1
                    probes.add("near-tie relaxation used")
                    return
                relax = {"sign": True} if spec.name in SIGN_FREE else None   # the class defines no sign convention
                tol = max(TOL_CLASS.get(spec.name, TOL), kappa_tol)
                diffs = oracle.compare(got, want, tol, path=_qname(q), relax=relax)
                if diffs:
                    sym = core.symptom_of(diffs)
                    if sym == "values" and not oracle.compare(got, want, tol, path=_qname(q), relax={"sign": True}):
                        sym = "values:signflip"
                    violate(inv, sym, f"{_qname(q)}: " + "; ".join(diffs[:3]), opk)

            settle("now")

            # ---- S1: the same lazy results under other schedules ----------------------------------------
            if live and ok() and cfg.get("s1") and deferred:
                step("s1")
                objs = {k: v for k, v in target_s.data.items() if isinstance(v, xr.DataArray) and v.chunks is not None
                        and not k.startswith("input_data")}
                outs = []
                for j, W in enumerate((1, 5, 16)):
                    s2 = sched.SimScheduler(seeds.sub_int(seed, f"s1/{j}"), sched.Config(W=W, reexec=0.1 * j, stall=0.1 * j))
                    s2.op = f"s1/{j}"
                    with dask.config.set(scheduler=s2.get):
                        o = oracle.capture(lambda: dask.compute(objs)[0])
                    if not o.ok:
                        raise sched.SimHarnessError(f"S1 recompute failed: {o.exc_type}: {o.exc_msg}")
                    outs.append(o.value)
                    s2.stats.merge_into(counts)
                    res.coverage.setdefault("interleavings_extra", []).extend(s2.stats.digests)
                # ... and under dask's own synchronous scheduler: cross-checks the scheduler stub itself
                with dask.config.set(scheduler="synchronous"):
                    o = oracle.capture(lambda: dask.compute(objs)[0])
                if not o.ok:
                    raise sched.SimHarnessError(f"S1 recompute under dask's scheduler failed: {o.exc_type}: {o.exc_msg}")
                outs.append(o.value)
                counts["s1_checks"] += 1
                for j in (1, 2, 3):
                    d = oracle.compare(outs[j], outs[0], TOL_S1, path="results")
                    if d:
                        violate("S1", "schedule-dependent", ("the same lazy results computed under two simulated schedules differ: " if j < 3 else
                                "the simulated scheduler and dask's synchronous scheduler disagree on the same lazy results: ") + "; ".join(d[:2]), "s1")
                        break

            settle("after_rot")

            # ---- F: a permanent task failure inside compute(), then a clean compute() ----------------
            if live and ok() and deferred and cfg.get("fault_compute"):
                step("fault_compute")
                fc = cfg["fault_compute"]
                sim.cfg.permanent_at = int(fc["at"])
                sim.cfg.permanent_exc = fc["exc"]
                sim.cfg.permanent_call = int(fc.get("call", 1))
                sim.cfg.armed_calls = 0
                o = oracle.capture(target_s.compute)
                sim.cfg.permanent_at = None
                sim.cfg.armed_calls = 0
                if not o.ok and o.exc_type == fc["exc"] and "injected" in o.exc_msg:
                    counts["task_faults"] += 1
                    probes.add("permanent fault inside compute() then clean recompute")
                elif o.ok:
                    pass          # graph shorter than the fault position: a plain compute()
                else:
                    violate("F", f"outcome:{o.kind()}", f"compute() under an injected {fc['exc']} raised {o.kind()}: {o.exc_msg[:200]}", "fault_compute")

            # ---- compute() -----------------------------------------------------------------------------------
            if live and ok() and deferred:
                step("compute")
                o = oracle.capture(target_s.compute)
                if tspec_rot or spec.name == "SparsePCA":
                    with core.reference_context():
                        ro = oracle.capture(target_r.compute)
                else:
                    ro = oracle.capture(lambda: None)      # (the eager reference has nothing to compute)
                res.log.append(f"  compute -> {o.kind()} ref {ro.kind()}")
                if o.kind() != ro.kind():
                    violate("E1", f"outcome:{o.kind()}!={ro.kind()}", f"compute() -> {o.kind()} {o.exc_msg[:200]!r}; reference -> {ro.kind()}", "compute")
                elif o.ok:
                    for key, arr in target_s.data.items():
                        if isinstance(arr, xr.DataArray) and arr.chunks is not None and not key.startswith("input_data"):
                            violate("L1", "still-lazy", f"after compute() the stored result {key!r} is still dask-backed", "compute")
                            break
                    if ok():
                        input_still_lazy(target_s, "after compute()")
                        input_still_lazy(sub, "after compute()")
            # ---- compute() again: it must be a no-op (nothing left to load, input still lazy, same answers) --
            if live and ok() and deferred and cfg.get("compute_twice", True):
                step("compute_again")
                mark = sim.mark()
                o = oracle.capture(target_s.compute)
                again = sim.calls_since(mark)
                res.log.append(f"  compute again -> {o.kind()} sched_calls={len(again)}")
                if not o.ok:
                    violate("E1", f"outcome:{o.kind()}", f"a second compute() raised {o.kind()}: {o.exc_msg[:200]}", "compute_again")
                else:
                    input_still_lazy(target_s, "after a second compute()")
                    input_still_lazy(sub, "after a second compute()")
                    probes.add("second compute()")
            settle("after_compute")

            # ---- E1: every observable equals the in-memory fit --------------------------------------------
            if live and ok():
                step("observe")
                nm = int((cfg["rot_params"] if tspec_rot else params)["n_modes"])
                if spec.name == "POP":
                    got = oracle.capture(_pop_invariants, target_s, env, None)
                    with core.reference_context():
                        want = oracle.capture(_pop_invariants, target_r, env, None)
                    judge(got, want, {"q": "call", "name": "pop_invariants"}, "E1", "observe")
                else:
                    qs = _signfree(spec, models.all_queries(spec, fit, cfg["new"], nm, rotator=tspec_rot, serde=False, with_input=True))
                    qrng = seeds.stream(seed, "observe")
                    if len(qs) > 8:
                        qs = [qs[i] for i in sorted(qrng.sample(range(len(qs)), 8))]
                    for q in qs:
                        if not ok():
                            break
                        got = oracle.capture(lambda: oracle.materialise(models.run_query(spec, target_s, _cq(q), env)))
                        with core.reference_context():
                            want = oracle.capture(lambda: oracle.materialise(models.run_query(spec, target_r, q, env)))
                        judge(got, want, q, "E1", "observe")
                if ok():
                    input_still_lazy(sub, "after the queries")

            if ok():
                bad_inputs = env.check_untouched()
                if bad_inputs:
                    violate("L2", "input-modified", "user input modified (chunks/values): " + "; ".join(bad_inputs[:3]), "end")
            if sim.monitor_failures and ok():
                violate("PURITY", "task", sim.monitor_failures[0], "end")

    sim.stats.merge_into(counts)
    counts["clock_span_s"] = clock.span_seconds()
    counts["clock_jumps"] = clock.jumps
    res.stats = counts
    f = sched.Config.from_json(cfg["sched"])
    mix = "+".join(k for k in ("reexec", "transient", "stall") if getattr(f, k) > 0) or "none"
    cell = "|".join([spec.name + ("+rot" if cfg["rot_params"] else ""), cfg["chunks"]["mode"] + ("+items" if cfg["chunks"].get("items") else ""),
                     "deferred" if deferred else "eager", f"nan{int(bool(params.get('check_nans', True)))}",
                     f"W{f.W}", mix])
    extra = res.coverage.get("interleavings_extra", [])
    res.coverage = {"history": cell, "cell": cell, "bigrams": [], "states": [],
                    "interleavings": list(sim.stats.digests) + list(extra), "probes": sorted(probes)}
    res.log += [f"sched {c['op']} {c['site']} n={c['n']} {c.get('digest', '')}" for c in sim.call_log]
    if trace:
        res.log += sim.event_log
    return res


def _chunk_refusal(o) -> bool:
    """xeofs' own explicit refusal of a chunk layout (SparsePCA's randomised solver): read like dask's
    NotImplementedError - a refusal is not a result."""
    return (not o.ok) and o.exc_type == "ValueError" and "chunk" in o.exc_msg


def _fragile_after(rot):
    try:
        return _fragile(rot)
    except Exception:
        return None


def simplifications(cfg: dict):
    """Candidate simpler configurations (the minimiser keeps those that fail the same way)."""
    def variant(**kw):
        c = copy.deepcopy(cfg)
        c.update(kw)
        return c
    if cfg.get("handles"):
        yield variant(handles=[], handle_timing=[])
    if cfg.get("fault_compute"):
        yield variant(fault_compute=None)
    if cfg.get("fault_fit"):
        yield variant(fault_fit=None)
    if cfg.get("rot_refit_fault"):
        yield variant(rot_refit_fault=None)
    if cfg.get("s1"):
        yield variant(s1=False)
    if cfg.get("compute_twice"):
        yield variant(compute_twice=False)
    if cfg.get("rot_params"):
        yield variant(rot_params=None)
    sc = cfg["sched"]
    if sc["reexec"] or sc["transient"] or sc["stall"]:
        yield variant(sched=dict(sc, reexec=0.0, transient=0.0, stall=0.0))
    if sc["W"] != 1:
        yield variant(sched=dict(sc, W=1))
    if cfg["fit"].get("w") or cfg["fit"].get("wY"):
        yield variant(fit=dict(cfg["fit"], w=None, wY=None))
    if cfg["chunks"]["mode"] != "single":
        c = copy.deepcopy(cfg)
        c["chunks"] = {"mode": "single", "n": c["chunks"].get("n", 2)}
        for k, d in c["descs"].items():
            if k.startswith("c:") and d.get("kind") != "weights" and d.get("chunks") is not None:
                d["chunks"] = c["chunks"]
        yield c
    for key in ("attrs", "coord_attrs", "ds_attrs", "extra_coord", "perm_seed", "multiindex", "nan_sample_new",
                "var_order", "dim_order"):
        if any(key in d for d in cfg["descs"].values()):
            c = copy.deepcopy(cfg)
            for d in c["descs"].values():
                d.pop(key, None)
            yield c
    for pk, simple in (("standardize", False), ("use_coslat", False), ("solver", "auto"), ("center", True)):
        if pk in cfg["params"] and cfg["params"][pk] not in (simple, [simple, simple]):
            c = copy.deepcopy(cfg)
            c["params"][pk] = simple
            yield c


def nontrivial(brief: dict) -> bool:
    s = brief["stats"]
    return s.get("nontrivial_calls", 0) > 0 or s.get("laziness_verdicts", 0) > 0
