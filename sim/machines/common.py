"""Shared by the machines: drawing the simulated system (model class, parameters, data pool)."""
from __future__ import annotations

import copy

from .. import gen, models, sched, seeds, space

SINGLE = ["EOF", "EOF", "EOF", "ComplexEOF", "HilbertEOF", "ExtendedEOF", "OPA", "POP", "SparsePCA"]
CROSS = ["MCA", "MCA", "CCA", "RDA", "CPCCA", "CPCCA", "ComplexMCA", "HilbertMCA", "ComplexCPCCA", "HilbertCPCCA"]
MULTI = ["MultiCCA"]


def draw_system(rng, seed: int, prop: str, *, families=("single",) * 6 + ("cross",) * 3 + ("multi",),
                lazy_prob=0.25, dask_eager_prob=0.15, names=None) -> tuple:
    fam = rng.choice(list(families))
    name = rng.choice({"single": SINGLE, "cross": CROSS, "multi": MULTI}[fam])
    if names:
        name = rng.choice(list(names))
        fam = models.SPECS[name].family
    spec = models.SPECS[name]
    # SparsePCA's dask route is broken in several ways (known findings under C12); it is exercised there
    lazy = spec.dask_ok and spec.name != "SparsePCA" and rng.random() < lazy_prob
    # dask-backed data fitted *eagerly* (compute=True): fit itself then issues a dozen scheduler calls, which is
    # where a task failure can interrupt a fit half-way (C14's fit_fault operation)
    dask_eager = spec.dask_ok and spec.name != "SparsePCA" and not lazy and rng.random() < (dask_eager_prob * (1.6 if name == "EOF" else 1.0))
    cfg: dict = {"property": prop, "seed": seed, "spec": name, "lazy": lazy, "dask_eager": dask_eager}
    lay = dict(max_features=12, complex_=spec.complex_input, allow_nan=not (lazy or dask_eager),
               allow_mi=not (lazy or dask_eager) or rng.random() < 0.3)
    if spec.time_ordered:
        lay["allow_nan"] = False
    if dask_eager and name == "EOF":
        lay["min_samples"] = 24       # enough samples for the bootstrapper (whose fit can then be interrupted too)
    # "wide" runs (15 %): more features than n_modes + 10, i.e. outside the regime in which the randomised
    # solvers are exact whatever their seed - the only regime in which the *handling of seeds* (forwarding,
    # re-use across fits, ambient RNG) can show. Same backend on both sides, so no solver tolerance is needed.
    wide = (not lazy) and (not dask_eager) and rng.random() < 0.22 and name not in ("MultiCCA",)
    cfg["wide"] = wide
    if wide:
        lay["max_features"] = 30
        lay["min_features"] = 16
        lay["containers"] = ("da", "da", "ds")
    descs: dict = {}
    fits: dict = {}
    new: dict = {}
    bad: dict = {}

    def chunked(d):
        if lazy or dask_eager:
            d = copy.deepcopy(d)
            d["chunks"] = space.draw_chunks(rng)
            if rng.random() < 0.6:
                # (dask's exact SVD - full solver, whitening - refuses arrays chunked along both dimensions;
                #  a refusal is consistent on both sides but teaches nothing)
                d["chunks"] = {"mode": rng.choice(["single", "sample"]), "n": d["chunks"]["n"]}
                if d["container"] != "da" and rng.random() < 0.7:
                    d["container"] = "da"
        return d

    if fam == "single":
        d0 = chunked(space.draw_layout(rng, **lay))
        if spec.name in ("ExtendedEOF", "OPA", "POP", "HilbertEOF"):
            d0["sample"] = d0["sample"][:1]
            d0["sample"][0][1] = max(d0["sample"][0][1], 18)
            d0.pop("multiindex", None) if d0.get("multiindex") == "sample" else None
            d0.pop("perm_seed", None)
        descs["D0"] = d0
        descs["D1"] = space.same_structure(rng, d0, n_samples=rng.choice([None, None, d0["sample"][0][1] + 3]))
        d2 = chunked(space.draw_layout(rng, **lay))
        if spec.name in ("ExtendedEOF", "OPA", "POP", "HilbertEOF"):
            d2["sample"] = d2["sample"][:1]
            d2["sample"][0][1] = max(d2["sample"][0][1], 18)
            d2.pop("multiindex", None) if d2.get("multiindex") == "sample" else None
            d2.pop("perm_seed", None)
        descs["D2"] = d2
        descs["N0"] = space.new_for(rng, d0, "disjoint")
        descs["N1"] = space.new_for(rng, d0, rng.choice(["overlap", "one", "same"]))
        if d0["container"] == "da" and rng.random() < 0.5:
            # unseen data may come with its dimensions in another order
            descs["N1"]["order"] = rng.choice(["rev", "rev", {"sf": "fs", "fs": "sf", "mixed": "sf"}[d0.get("order", "sf")]])
            if len(d0["sample"]) + len(d0["fields"][0]) >= 3 and rng.random() < 0.6:
                descs["N0"]["order"] = "rev"
        descs["N2"] = space.new_for(rng, d2, "disjoint")
        if rng.random() < 0.3:
            descs["W0"] = {"kind": "weights", "of": "D0", "seed": rng.randrange(10 ** 6),
                           "name_kind": rng.choice(["var", "var", "coord", "none"]),
                           "dim_order": rng.choice([None, None, "rev"])}
        fits["F0"] = {"X": "D0", "w": "W0" if "W0" in descs else None}
        fits["F1"] = {"X": "D1", "w": None}
        fits["F2"] = {"X": "D2", "w": None}
        # a data set of small rank (three features): a fit that asks for more modes than that fails - and must
        # leave nothing behind that a later fit could pick up
        ds_ = space.draw_layout(rng, **dict(lay, max_features=3, min_features=3, allow_nan=False, containers=("da",)))
        if spec.time_ordered:
            ds_["sample"] = ds_["sample"][:1]
            ds_["sample"][0][1] = max(ds_["sample"][0][1], 18)
            ds_.pop("multiindex", None)
            ds_.pop("perm_seed", None)
        descs["D3"] = chunked(ds_)
        fits["F3"] = {"X": "D3", "w": None}
        new = {"F0": ["N0", "N1"], "F1": ["N0", "N1"], "F2": ["N2"], "F3": []}
        bad = {"F0": ["N2"], "F1": ["N2"], "F2": ["N0"], "F3": ["N0"]}
        if not lazy and gen.n_features_total(d0) >= 4 and not d0.get("nan_features"):
            # same layout, but an entirely missing feature the training data did not have (a malformed call)
            descs["NN0"] = dict(copy.deepcopy(descs["N0"]), nan_features=1)
            bad["F0"].append("NN0")
            bad["F1"].append("NN0")
        # parameters must be valid for every data set of the pool: draw against the smallest
        small = min((descs["D0"], descs["D1"], descs["D2"]), key=models._rank)
        params = models.draw_single_params(rng, spec, small, lazy=True if lazy else (False if dask_eager else None))
        if not all(models._has_lat(descs[k]) for k in ("D0", "D1", "D2")):
            params["use_coslat"] = False
        if any(descs[k].get("nan_features") or descs[k].get("nan_samples") for k in ("D0", "D1", "D2")):
            params["check_nans"] = True
        _unseen_variants(rng, descs, params, "D0", "N0", "N1")
        if spec.name == "ExtendedEOF":
            F = max(gen.n_features_total(descs[k]) for k in ("D0", "D1", "D2"))
            if (params.get("n_pca_modes") or F) * params["embedding"] > 12:
                params["solver"] = "full"
    elif fam == "cross":
        lay["max_features"] = 20 if wide else 8
        dx = chunked(space.draw_layout(rng, **lay))
        dy = chunked(space.paired_layout(rng, dx, **lay))
        if spec.hilbert:
            for d in (dx, dy):
                d["sample"] = d["sample"][:1]
                d["sample"][0][1] = max(d["sample"][0][1], 18)
                d.pop("perm_seed", None)
                if d.get("multiindex") == "sample":
                    d.pop("multiindex")
            dy["sample"] = copy.deepcopy(dx["sample"])
        descs["X0"], descs["Y0"] = dx, dy
        n1 = rng.choice([None, None, dx["sample"][0][1] + 2])
        descs["X1"] = space.same_structure(rng, dx, n_samples=n1)
        descs["Y1"] = space.same_structure(rng, dy, n_samples=n1)
        dx2 = chunked(space.draw_layout(rng, **lay))
        dy2 = chunked(space.paired_layout(rng, dx2, **lay))
        if spec.hilbert:
            for d in (dx2, dy2):
                d["sample"] = d["sample"][:1]
                d["sample"][0][1] = max(d["sample"][0][1], 18)
                d.pop("perm_seed", None)
                if d.get("multiindex") == "sample":
                    d.pop("multiindex")
            dy2["sample"] = copy.deepcopy(dx2["sample"])
        descs["X2"], descs["Y2"] = dx2, dy2
        k = rng.randrange(1, 2 ** 31)
        descs["NX0"] = space.new_for(seeds.stream(k, "n"), dx, "disjoint")
        descs["NY0"] = space.new_for(seeds.stream(k, "n"), dy, "disjoint")
        descs["NX2"] = space.new_for(seeds.stream(k + 1, "n"), dx2, "disjoint")
        descs["NY2"] = space.new_for(seeds.stream(k + 1, "n"), dy2, "disjoint")
        fits["F0"] = {"X": "X0", "Y": "Y0"}
        if rng.random() < 0.25:
            descs["WX0"] = {"kind": "weights", "of": "X0", "seed": rng.randrange(10 ** 6),
                            "name_kind": rng.choice(["var", "coord", "none"]),
                            "dim_order": rng.choice([None, None, "rev"])}
            fits["F0"]["w"] = "WX0"
            if rng.random() < 0.5:
                descs["WY0"] = {"kind": "weights", "of": "Y0", "seed": rng.randrange(10 ** 6),
                                "name_kind": rng.choice(["var", "coord", "none"])}
                fits["F0"]["wY"] = "WY0"
        fits["F1"] = {"X": "X1", "Y": "Y1"}
        fits["F2"] = {"X": "X2", "Y": "Y2"}
        new = {"F0": [["NX0", "NY0"]], "F1": [["NX0", "NY0"]], "F2": [["NX2", "NY2"]]}
        bad = {"F0": [["NX2", "NY2"]], "F1": [["NX2", "NY2"]], "F2": [["NX0", "NY0"]]}
        if prop == "C14":
            # a pair of small rank (three features on the X side): a fit that asks for more modes than that fails
            # (or is clipped) - and must leave nothing behind that a later fit could pick up
            dx3 = space.draw_layout(rng, **dict(lay, max_features=3, min_features=3, allow_nan=False, containers=("da",)))
            dy3 = space.paired_layout(rng, dx3, **dict(lay, max_features=6, min_features=3, allow_nan=False, containers=("da",)))
            if spec.hilbert:
                for d in (dx3, dy3):
                    d["sample"] = d["sample"][:1]
                    d["sample"][0][1] = max(d["sample"][0][1], 18)
                    d.pop("perm_seed", None)
                    d.pop("multiindex", None)
                dy3["sample"] = copy.deepcopy(dx3["sample"])
            descs["X3"], descs["Y3"] = chunked(dx3), chunked(dy3)
            fits["F3"] = {"X": "X3", "Y": "Y3"}
            new["F3"] = []
            bad["F3"] = [["NX0", "NY0"]]
        sx = min((descs["X0"], descs["X1"], descs["X2"]), key=models._rank)
        sy = min((descs["Y0"], descs["Y1"], descs["Y2"]), key=models._rank)
        params = models.draw_cross_params(rng, spec, sx, sy, lazy=True if lazy else (False if dask_eager else None))
        if dask_eager:
            # a fractional n_pca_modes needs the spectrum: documented ValueError for dask input
            npm = params["n_pca_modes"]
            params["n_pca_modes"] = [("all" if isinstance(x, float) else x) for x in npm] if isinstance(npm, list) \
                else ("all" if isinstance(npm, float) else npm)
        params["use_coslat"] = [bool(params["use_coslat"][0]) and all(models._has_lat(descs[k]) for k in ("X0", "X1", "X2")),
                                bool(params["use_coslat"][1]) and all(models._has_lat(descs[k]) for k in ("Y0", "Y1", "Y2"))]
        if any(descs[k].get("nan_features") or descs[k].get("nan_samples") for k in descs):
            params["check_nans"] = True
        _unseen_variants(rng, descs, params, "X0", "NX0", "NX0")
    else:
        lay.update(containers=("da",), allow_nan=False, allow_mi=False, max_features=6)
        a = space.draw_layout(rng, **lay)
        b = space.paired_layout(rng, a, **lay)
        c = space.paired_layout(rng, a, **lay)
        for v in (a, b, c):
            v.pop("extra_coord", None)      # views with (different) auxiliary coordinates cannot be concatenated
        descs.update(A0=a, B0=b, C0=c)
        # same number of views, other values and another sample count (per-view state must not survive)
        n1 = a["sample"][0][1] + rng.choice([0, 4, 5])      # (never fewer samples: a handful of samples is rank-deficient)
        descs["A1"] = space.same_structure(rng, a, n_samples=n1)
        descs["B1"] = space.same_structure(rng, b, n_samples=n1)
        fits["F0"] = {"views": ["A0", "B0"]}
        fits["F1"] = {"views": ["A1", "B1"]}
        fits["F2"] = {"views": ["A0", "B0", "C0"]}
        # the same number of views with other feature counts
        a2 = space.draw_layout(rng, **lay)
        b2 = space.paired_layout(rng, a2, **lay)
        a2.pop("extra_coord", None)
        b2.pop("extra_coord", None)
        descs.update(A2=a2, B2=b2)
        fits["F3"] = {"views": ["A2", "B2"]}
        new = {"F0": [], "F1": [], "F2": [], "F3": []}
        bad = {"F0": [], "F1": [], "F2": [], "F3": []}
        params = models.draw_multi_params(rng, [a, b, c, a2, b2])
    gen.sanitize_descs(descs)
    cfg.update(descs=descs, fits=fits, new=new, bad=bad, params=params)
    # "rotator focus" (half of the runs of classes that have a rotator): as many modes as the data allow, a flat
    # spectrum (so that the rotation re-ranks modes: the sorting bookkeeping only shows then) and a history
    # that fits the rotator early
    cfg["focus"] = None
    if wide:
        # flat spectra: the randomised solvers are then visibly seed-dependent; a reduced PCA (randomised path)
        for d in descs.values():
            if d.get("kind") != "weights" and "ratio" in d:
                d["ratio"] = rng.choice([0.9, 0.95])
        if fam == "cross" or name == "POP":
            params["use_pca"] = True
            params["n_pca_modes"] = rng.choice([3, 4]) if name == "POP" else [rng.choice([3, 4]), rng.choice([3, 4])]
            params["n_modes"] = min(int(params["n_modes"]), 3)
            if cfg.get("rot_params"):
                pass
    if spec.rotator and rng.random() < 0.5:
        cfg["focus"] = "rotator"
        for k, d in descs.items():
            if d.get("kind") != "weights":
                d["ratio"] = rng.choice([0.9, 0.95]) if "ratio" in d else d.get("ratio")
        if fam == "single":
            small = min((descs["D0"], descs["D1"], descs["D2"]), key=models._rank)
            params["n_modes"] = max(int(params["n_modes"]), min(5, max(2, models._rank(small))))
        elif fam == "cross" and not wide:   # (wide runs keep their reduced PCA: whitening ~n_samples features is ill-conditioned)
            rk = [min(models._rank(descs[k]) for k in ks) for ks in (("X0", "X1", "X2"), ("Y0", "Y1", "Y2"))]
            params["n_pca_modes"] = ["all", "all"]
            params["n_modes"] = max(2, min(5, rk[0], rk[1]))
    cfg["rot_params"] = models.draw_rotator_params(rng, params, lazy=True if lazy else (False if dask_eager else None)) if spec.rotator else None
    if lazy and cfg["rot_params"] and fam == "single" and rng.random() < 0.3:
        # an *eager* rotator on a deferred model: rotator.fit itself computes (one bool() per iteration on a growing
        # graph, hence the bounded iteration count and the coarse rtol) - and can therefore be interrupted
        cfg["rot_params"].update(compute=True, max_iter=40, rtol=1e-4)
    if dask_eager and cfg["rot_params"] and fam == "cross":
        # an eager rotation of loadings that are still lazy (cross-set PCA / whitener matrices are never computed by
        # fit) evaluates a growing graph per iteration: bounded; "did not converge" is not judged
        cfg["rot_params"]["max_iter"] = rng.choice([10, 15])
    # (bootstrap members are reproducible "to solver accuracy" only - C20 - so they stay in the exact regime)
    # ... and a resample of few samples is rank-deficient around the requested mode count: its trailing modes are
    # then decided by the inner (unseeded) solver's random sketch, so the bootstrapper needs enough samples
    enough = name == "EOF" and all(gen.n_samples_total(descs[k]) >= 4 * int(params["n_modes"]) + 4 for k in ("D0", "D1", "D2"))
    cfg["boot_params"] = {"n_bootstraps": rng.randint(2, 4), "seed": rng.randrange(1000)} if name == "EOF" and not lazy and not wide and enough else None
    if cfg["boot_params"] and rng.random() < 0.25:
        params["center"] = False      # (uncentred models are where a bootstrapper that "re-centres" its input shows: C14-a2)
    if dask_eager and cfg["boot_params"]:
        # moderate spectra: neither steep (accuracy of dask's randomised solver) nor flat (eigenvector sensitivity)
        for d in descs.values():
            if d.get("kind") != "weights" and "ratio" in d:
                d["ratio"] = rng.choice([0.7, 0.8])
    cfg["sched"] = sched.Config(W=rng.choice([1, 1, 2, 3, 4, 8]), reexec=rng.choice([0, 0, 0.05, 0.15]),
                                transient=rng.choice([0, 0, 0.05]), stall=rng.choice([0, 0.1]),
                                purity=1.0).to_json()
    return spec, cfg


def _unseen_variants(rng, descs, params, fitted, n_nan, n_vars):
    """Unseen data that differs from the fitted data in ways transform() has to cope with."""
    r1, r2 = rng.random(), rng.random()
    if params.get("check_nans") and r1 < 0.3 and gen.n_samples_total(descs[n_nan]) >= 3:
        descs[n_nan]["nan_sample_new"] = 1        # an entirely missing sample (dropped by transform)
    d = descs[fitted]
    if d.get("container") == "ds" and len(d["fields"]) >= 2 and r2 < 0.4:
        descs[n_vars]["var_order"] = "rev"        # the same variables assembled in another order


def simplifications(cfg: dict):
    """Candidate simpler configurations for C13/C14 replays (kept only if they fail the same way)."""
    def variant(mut):
        c = copy.deepcopy(cfg)
        mut(c)
        return c
    sc = cfg.get("sched") or {}
    if sc.get("reexec") or sc.get("transient") or sc.get("stall") or sc.get("W", 1) != 1:
        yield variant(lambda c: c["sched"].update(reexec=0.0, transient=0.0, stall=0.0, W=1))
    for key in ("attrs", "coord_attrs", "ds_attrs", "extra_coord", "perm_seed", "nan_features", "nan_samples",
                "nan_sample_new", "var_order", "dim_order"):
        if any(key in d and d[key] for d in cfg["descs"].values()):
            yield variant(lambda c, key=key: [d.pop(key, None) for d in c["descs"].values()])
    if any(f.get("w") or f.get("wY") for f in cfg.get("fits", {}).values()):
        yield variant(lambda c: [f.update(w=None, wY=None) for f in c["fits"].values()])
    for pk, simple in (("standardize", False), ("use_coslat", False), ("solver", "auto"), ("center", True),
                       ("sample_name", None), ("feature_name", None)):
        if pk in cfg["params"] and cfg["params"][pk] not in (simple, [simple, simple]):
            if simple is None:
                yield variant(lambda c, pk=pk: c["params"].pop(pk, None))
            else:
                yield variant(lambda c, pk=pk, simple=simple: c["params"].__setitem__(pk, simple))
    if cfg.get("rot_params") and cfg["rot_params"].get("power", 1) != 1:
        yield variant(lambda c: c["rot_params"].__setitem__("power", 1))
