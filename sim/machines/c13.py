"""C13 - a model survives serialisation unchanged (DESIGN 5).

Twin objects are fed the same operation history: A is never serialised; B is, at drawn points of
the history, pushed through the simulated store and replaced by the deserialised copy (a restart:
crash after save, new process, only durable state survives). A is the oracle.
"""
from __future__ import annotations

import copy

import dask
import numpy as np

from .. import core, models, oracle, sched, seeds, store
from ..core import RunResult, Violation
from . import common
from .c14 import _qname

PROP = "C13"
TOL = 1e-9
NAMES = [n for n in common.SINGLE + common.CROSS]


def generate(seed: int, tier: str = "quick") -> dict:
    rng = seeds.stream(seed, "cfg")
    spec, cfg = common.draw_system(rng, seed, PROP, families=("single",) * 6 + ("cross",) * 4, lazy_prob=0.2, dask_eager_prob=0.1)
    cfg["ops"] = generate_ops(seeds.stream(seed, "ops"), cfg, spec, tier)
    return cfg


def generate_ops(rng, cfg, spec, tier) -> list[dict]:
    n = rng.randint(4, 11 if tier == "quick" else 16)
    ops: list[dict] = [{"op": "fit", "fit": "F0"}]
    cur = "F0"
    has_rot = False
    dataless = {"m": False, "r": False}
    n_modes = int(cfg["params"]["n_modes"])
    rmodes = int(cfg["rot_params"]["n_modes"]) if cfg["rot_params"] else 0

    def restart(tgt):
        sd = rng.random() < 0.4
        op = {"op": "restart", "target": tgt, "codec": rng.choice(["direct", "netcdf", "netcdf", "zarr", "zarr"]),
              "save_data": sd, "second_rebuild": rng.random() < 0.35}
        if op["codec"] != "direct" and rng.random() < 0.35:
            # through the real entry points: model.save(path, engine=...) (which starts with compute()) and
            # Model.load(path, engine=...), on the simulated disk
            op["via"] = "save"
            op["engine"] = "zarr" if op["codec"] == "zarr" else ("h5netcdf" if (spec.complex_input or spec.hilbert) else rng.choice(["netcdf4", "h5netcdf"]))
        if op["codec"] == "zarr" and rng.random() < 0.25:
            # the first attempt to rebuild from the (dask-backed) zarr tree fails in a drawn task of a drawn scheduler
            # call of deserialize(); the attempt is repeated from the same stored state
            op["load_fault"] = {"same_tree": rng.random() < 0.6, "call": rng.choice([1, 1, 2, 3, 5, 8]), "at": rng.choice([1, 1, 2]),
                                "exc": rng.choice(["InjectedFault", "MemoryError", "OSError"])}
        if not sd:
            dataless[tgt] = True
        return op

    def query(tgt):
        nm = rmodes if tgt == "r" else n_modes
        q = models.draw_queries(rng, spec, cfg["fits"][cur], cfg["new"][cur], nm, k=1, rotator=(tgt == "r"),
                                with_input=False, serde=False)[0]
        return {"op": "query", "target": tgt, "q": q}

    if cfg["lazy"] and rng.random() < 0.3:
        # bias: compute() fails half-way right after the deferred fit
        ops.append({"op": "compute_fault", "target": "m", "call": rng.choice([1, 1, 2]), "at": rng.choice([1, 2, 3, 5, 8, 20]),
                    "exc": rng.choice(["InjectedFault", "MemoryError", "OSError"])})
    # bias: restart right after fit
    if rng.random() < 0.5:
        ops.append(restart("m"))
    def tq(f):
        fx = cfg["fits"][f]
        return {"q": "transform", "X": fx["X"]} if spec.family == "single" else {"q": "transform", "X": fx["X"], "Y": fx["Y"]}
    if cfg.get("focus") == "rotator" and cfg["rot_params"] and not dataless["m"]:
        ops.append({"op": "rot_fit"})
        has_rot = True
        used = spec.has_transform and rng.random() < 0.5
        if used:
            # the rotator is *used* before it is stored: whatever transform() keeps on the object is not durable state
            ops.append({"op": "query", "target": "r", "q": tq(cur)})
        ops.append(restart("r"))
        if rng.random() < (0.8 if used else 0.5):
            ops.append({"op": "compute", "target": "r"})
            if used:
                ops.append({"op": "query", "target": "r", "q": tq(cur)})
    while len(ops) < n:
        r = rng.random()
        tgt = "r" if (has_rot and rng.random() < 0.45) else "m"
        if r < 0.08:
            nxt = rng.choice(["F0", "F1", "F2"])
            ops.append({"op": "fit", "fit": nxt})
            cur = nxt
            has_rot = False
            dataless = {"m": False, "r": False}
            if rng.random() < 0.6:
                ops.append(restart("m"))
        elif r < 0.40:
            ops.append(query(tgt))
        elif r < 0.62:
            ops.append(restart(tgt))
            if rng.random() < 0.25:       # twice in a row: restart of a restarted model
                ops.append(restart(tgt))
        elif r < 0.70:
            ops.append({"op": "save", "target": tgt, "codec": rng.choice(["netcdf", "zarr"])})
        elif r < 0.80:
            if cfg["lazy"] and rng.random() < 0.7:
                # compute() of the twin that gets restarted fails half-way (task failure in a drawn scheduler call);
                # biased to be followed by a restart (the half-way state is what gets stored) and a clean compute()
                ops.append({"op": "compute_fault", "target": tgt, "call": rng.choice([1, 1, 2, 3, 4, 5]),
                            "at": rng.choice([1, 1, 2, 3, 5, 8, 20]), "exc": rng.choice(["InjectedFault", "MemoryError", "OSError"])})
                if rng.random() < 0.6:
                    ops.append(restart(tgt))
                if rng.random() < 0.6:
                    ops.append({"op": "compute", "target": tgt})
            else:
                ops.append({"op": "compute", "target": tgt})
        elif r < 0.92 and cfg["rot_params"] and not dataless["m"]:
            ops.append({"op": "rot_fit"})
            has_rot = True
            dataless["r"] = False
            if rng.random() < 0.6:
                ops.append(restart("r"))
                if rng.random() < 0.4:
                    ops.append({"op": "compute", "target": "r"})
        elif r < 0.96:
            ops.append({"op": "ambient"})
        else:
            # transform of *other* data, then restart: transform-time bookkeeping is serialised too
            if spec.has_transform and cfg["new"][cur]:
                ops.append(query(tgt))
                ops.append(restart(tgt))
    for i, o in enumerate(ops):
        o["id"] = i
    return ops


def _opk(op):
    k = op["op"]
    if k == "fit":
        return f"fit:{op['fit']}"
    if k == "query":
        return f"q{op['target']}:{_qname(op['q'])}"
    if k == "restart":
        return f"restart:{op['target']}:{op['codec']}:{'data' if op['save_data'] else 'nodata'}" + ("x2" if op.get("second_rebuild") else "") + ("/save" if op.get("via") else "")
    if k == "save":
        return f"save:{op['target']}:{op['codec']}"
    if k in ("compute", "compute_fault"):
        return f"{k}:{op['target']}"
    return k


def execute(cfg: dict, *, stop_at_first=True, trace=False) -> RunResult:
    seed = cfg["seed"]
    spec = models.SPECS[cfg["spec"]]
    res = RunResult(seed=seed, config=cfg)
    clock = core.SimClock(seed)
    sim = sched.SimScheduler(seed, sched.Config.from_json(cfg["sched"]))
    envA, envB = models.Env(cfg["descs"]), models.Env(cfg["descs"])
    st = {"fit": None, "rot": False, "dataless_m": False, "dataless_r": False, "restarted_m": 0, "restarted_r": 0}
    counts = {"ops": 0, "queries": 0, "queries_after_restart": 0, "restarts": 0, "saves": 0, "rot_fits": 0,
              "computes": 0, "ambient": 0, "skips": 0, "lazy_after_zarr": 0}
    cov = {"hist": [], "bigrams": set(), "states": set(), "probes": set()}
    tags = core.config_tags(cfg)

    def violate(inv, symptom, detail, op):
        res.violations.append(Violation(PROP, inv, spec.name, symptom, detail, op.get("id", -1), _opk(op), "", tags))

    def both(fn_a, fn_b, label):
        """Run the same call on A (pristine context) and on B (simulated scheduler), same ambient RNG."""
        s = seeds.sub_int(seed, f"twin/{label}", 32)
        with core.reference_context():
            np.random.seed(s)
            a = oracle.capture(fn_a)
        np.random.seed(s)
        b = oracle.capture(fn_b)
        if not b.ok and b.exc_type == "SimHarnessError":
            raise sched.SimHarnessError(b.exc_msg)
        return a, b

    def ask(tgt, q, op, inv="R2"):
        oa, ob = (A["m"], B["m"]) if tgt == "m" else (A["r"], B["r"])
        sim.op = f"{op['id']}q"
        a, b = both(lambda: oracle.materialise(models.run_query(spec, oa, q, envA)),
                    lambda: oracle.materialise(models.run_query(spec, ob, q, envB)), f"{op['id']}/{core.jdump(q)}")
        counts["queries"] += 1
        if st[f"restarted_{tgt}"]:
            counts["queries_after_restart"] += 1
        res.log.append(f"  q {tgt} {core.jdump(q)} -> A {a.kind()} B {b.kind()}")
        res.vlog.append(oracle.digest(b))
        if q["q"] == "params":
            d = oracle.params_equal(b.value, a.value) if (a.ok and b.ok) else oracle.compare(b, a, TOL)
            if d:
                violate("R1", "params", f"{tgt}.get_params(): " + "; ".join(d[:3]), op)
            return
        diffs = oracle.compare(b, a, TOL, path=_qname(q))
        if diffs:
            violate(inv, core.symptom_of(diffs), f"{tgt}.{_qname(q)}: " + "; ".join(diffs[:3]), op)

    def probe(tgt, op, k=2, inv="R2"):
        if st["fit"] is None or (tgt == "r" and not st["rot"]):
            return
        prng = seeds.stream(seed, f"probe/{op['id']}/{tgt}")
        nm = int(cfg["rot_params"]["n_modes"]) if tgt == "r" else int(cfg["params"]["n_modes"])
        qs = models.draw_queries(prng, spec, cfg["fits"][st["fit"]], cfg["new"][st["fit"]], nm, k=k,
                                 rotator=(tgt == "r"), with_input=False, serde=False)
        for q in qs:
            if res.violations:
                return
            ask(tgt, q, op, inv)

    A: dict = {"m": None, "r": None}
    B: dict = {"m": None, "r": None}
    with core.simulated_ambient(clock), dask.config.set(scheduler=sim.get), store.SimDisk():
        core.ambient_event(seed, "start", clock)
        A["m"] = spec.cls()(**copy.deepcopy(cfg["params"]))
        B["m"] = spec.cls()(**copy.deepcopy(cfg["params"]))
        prev = "^"
        for op in cfg["ops"]:
            kind = op["op"]
            sim.op = str(op["id"])
            counts["ops"] += 1
            cov["hist"].append(_opk(op))
            cov["bigrams"].add(f"{prev}>{_opk(op).split(':')[0]}")
            prev = _opk(op).split(":")[0]
            res.log.append(f"op {op['id']} {_opk(op)}")
            tgt = op.get("target", "m")

            if kind == "fit":
                if st["dataless_m"] and False:
                    pass
                a, b = both(lambda: models.fit_model(spec, A["m"], cfg["fits"][op["fit"]], envA),
                            lambda: models.fit_model(spec, B["m"], cfg["fits"][op["fit"]], envB), f"{op['id']}/fit")
                res.log.append(f"  fit -> A {a.kind()} B {b.kind()}")
                st.update(rot=False, dataless_m=False, dataless_r=False)
                if a.kind() != b.kind():
                    violate("R2", f"outcome:{b.kind()}!={a.kind()}",
                            f"fit({op['fit']}) on the restarted twin -> {b.kind()} {b.exc_msg[:160]!r}, on the never-serialised twin -> {a.kind()} {a.exc_msg[:160]!r}", op)
                elif a.ok:
                    st["fit"] = op["fit"]
                    probe("m", op, k=1)
                else:
                    st["fit"] = None
            elif st["fit"] is None or (tgt == "r" and not st["rot"]):
                counts["skips"] += 1
            elif kind == "query":
                ask(tgt, op["q"], op)
            elif kind in ("restart", "save"):
                obj = B[tgt]
                sim.op = f"{op['id']}s"
                store_ = store.SimStore()
                sd = op.get("save_data", False)

                via_save = op.get("via") == "save"
                path = f"sim://{op['id']}"

                def do_put():
                    if via_save:
                        obj.save(path, overwrite=True, save_data=sd, engine=op["engine"])
                    else:
                        store_.put(obj.serialize(), op["codec"], save_data=sd)
                if via_save:
                    # save() starts with compute(): mirrored on the never-serialised twin
                    with core.reference_context():
                        oracle.capture(A[tgt].compute)
                    cov["probes"].add("real save()/load() on the simulated disk")
                    counts["real_saves"] = counts.get("real_saves", 0) + 1
                out = oracle.capture(do_put)
                if not out.ok and out.exc_type == "SimHarnessError":
                    raise sched.SimHarnessError(out.exc_msg)
                if not out.ok:
                    violate("R0", f"put:{out.exc_type}", f"writing the serialised {tgt} through codec {op['codec']} raised {out.exc_type}: {out.exc_msg[:200]}", op)
                else:
                    rebuild = (lambda: type(obj).load(path, engine=op["engine"])) if via_save else (lambda: type(obj).deserialize(store_.get()))
                    lf = op.get("load_fault")
                    if lf and not via_save and lf.get("same_tree", True):
                        # the tree is opened once; the interrupted deserialize() and its repetition see the same object
                        held = oracle.capture(store_.get)
                        if held.ok:
                            rebuild = (lambda: type(obj).deserialize(held.value))
                    if lf:
                        sim.cfg.permanent_at, sim.cfg.permanent_exc, sim.cfg.permanent_call = int(lf["at"]), lf["exc"], int(lf["call"])
                        sim.cfg.armed_calls = 0
                        fo = oracle.capture(rebuild)
                        sim.cfg.permanent_at = None
                        sim.cfg.armed_calls = 0
                        if not fo.ok and fo.exc_type == "SimHarnessError":
                            raise sched.SimHarnessError(fo.exc_msg)
                        if not fo.ok and fo.exc_type == lf["exc"] and "injected" in fo.exc_msg:
                            counts["task_faults"] = counts.get("task_faults", 0) + 1
                            counts["load_faults"] = counts.get("load_faults", 0) + 1
                            cov["probes"].add("rebuild interrupted by a task failure, then repeated")
                        elif not fo.ok:
                            violate("R0", f"get:{fo.exc_type}", f"rebuilding {tgt} from the {op['codec']} store under an injected {lf['exc']} raised {fo.exc_type}: {fo.exc_msg[:200]}", op)
                    out = oracle.capture(rebuild)
                    if out.ok and op.get("second_rebuild"):
                        # the stored state is read a second time (two loads of one file; two rebuilds from one
                        # tree object on the direct route): the second rebuild is the one that is kept
                        out = oracle.capture(rebuild)
                        cov["probes"].add("second rebuild from the same stored state")
                    if not out.ok:
                        violate("R0", f"get:{out.exc_type}", f"rebuilding {tgt} from the {op['codec']} store raised {out.exc_type}: {out.exc_msg[:200]}", op)
                if not res.violations:
                    if kind == "restart":
                        counts["restarts"] += 1
                        counts[f"restart_{op['codec']}"] = counts.get(f"restart_{op['codec']}", 0) + 1
                        B[tgt] = out.value          # only durable state survives
                        st[f"restarted_{tgt}"] += 1
                        if st[f"restarted_{tgt}"] >= 2:
                            cov["probes"].add("restart of a restarted model")
                        if not sd and op["codec"] != "direct":
                            st[f"dataless_{tgt}"] = True
                        if op["codec"] == "zarr":
                            counts["lazy_after_zarr"] += 1
                        if tgt == "r":
                            cov["probes"].add("rotator restarted")
                        ask(tgt, {"q": "params"}, op)
                        # the rebuilt object must still project data the way its twin does: asked after
                        # every restart (mode order / sign bookkeeping only shows in transform)
                        if not res.violations and spec.has_transform:
                            f = cfg["fits"][st["fit"]]
                            tq = {"q": "transform", "X": f["X"]} if spec.family == "single" else \
                                {"q": "transform", "X": f["X"], "Y": f["Y"]}
                            ask(tgt, tq, op)
                        if not res.violations:
                            probe(tgt, op, k=3)
                    else:
                        counts["saves"] += 1
                        probe(tgt, op, k=2, inv="R4")     # the live object keeps answering like its twin
            elif kind == "compute":
                a, b = both(A[tgt].compute, B[tgt].compute, f"{op['id']}/compute")
                counts["computes"] += 1
                res.log.append(f"  compute {tgt} -> A {a.kind()} B {b.kind()}")
                if a.kind() != b.kind():
                    violate("R2", f"outcome:{b.kind()}!={a.kind()}", f"{tgt}.compute() -> {b.kind()} {b.exc_msg[:160]!r} on the restarted twin, {a.kind()} on the other", op)
                else:
                    if st[f"restarted_{tgt}"]:
                        cov["probes"].add("compute() after a restart")
                    probe(tgt, op, k=2)
            elif kind == "compute_fault":
                sim.cfg.permanent_at = int(op["at"])
                sim.cfg.permanent_exc = op["exc"]
                sim.cfg.permanent_call = int(op.get("call", 1))
                sim.cfg.armed_calls = 0
                b = oracle.capture(B[tgt].compute)
                fired = not b.ok and b.exc_type == op["exc"] and "injected" in b.exc_msg
                sim.cfg.permanent_at = None
                sim.cfg.armed_calls = 0
                res.log.append(f"  compute_fault {tgt} -> B {b.kind()}")
                if not b.ok and b.exc_type == "SimHarnessError":
                    raise sched.SimHarnessError(b.exc_msg)
                if fired:
                    # B is left wherever the failure left it; A was not computed. Both must keep giving equal answers,
                    # through later restarts and a later clean compute()
                    counts["task_faults"] = counts.get("task_faults", 0) + 1
                    counts["compute_faults"] = counts.get("compute_faults", 0) + 1
                    cov["probes"].add("compute() of the restarted twin failed half-way")
                    probe(tgt, op, k=2)
                else:
                    with core.reference_context():
                        a = oracle.capture(A[tgt].compute)
                    counts["computes"] += 1
                    if a.kind() != b.kind():
                        violate("R2", f"outcome:{b.kind()}!={a.kind()}", f"{tgt}.compute() -> {b.kind()} {b.exc_msg[:160]!r} on the restarted twin, {a.kind()} on the other", op)
                    else:
                        probe(tgt, op, k=2)
            elif kind == "rot_fit":
                if st["dataless_m"]:
                    counts["skips"] += 1
                else:
                    if cfg["rot_params"]["compute"] and oracle.is_lazy(list(B["m"].data.values())[1:2]):
                        # an eager rotation of a still-lazy model evaluates bool(<growing dask graph>) in
                        # every iteration (quadratic cost, minutes): compute the model first, on both twins
                        both(A["m"].compute, B["m"].compute, f"{op['id']}/precompute")
                        counts["implicit_computes"] = counts.get("implicit_computes", 0) + 1
                    ra = spec.rot_cls()(**copy.deepcopy(cfg["rot_params"]))
                    rb = spec.rot_cls()(**copy.deepcopy(cfg["rot_params"]))
                    a, b = both(lambda: ra.fit(A["m"]), lambda: rb.fit(B["m"]), f"{op['id']}/rot")
                    counts["rot_fits"] += 1
                    res.log.append(f"  rot_fit -> A {a.kind()} B {b.kind()}")
                    if _nonconv(a) or _nonconv(b):
                        # numerical cliff (iteration count vs rtol): not judged, rotator unusable
                        counts["inconclusive"] = counts.get("inconclusive", 0) + 1
                        st["rot"] = False
                    elif a.kind() != b.kind():
                        violate("R2", f"outcome:{b.kind()}!={a.kind()}", f"rotator.fit(model) -> {b.kind()} {b.exc_msg[:160]!r} on the restarted twin, {a.kind()} on the other", op)
                    elif a.ok:
                        A["r"], B["r"] = ra, rb
                        st.update(rot=True, dataless_r=False, restarted_r=0)
                        if st["restarted_m"]:
                            cov["probes"].add("rotator fitted on a restarted model")
                        probe("r", op, k=2)
                    else:
                        st["rot"] = False
            elif kind == "ambient":
                core.ambient_event(seed, str(op["id"]), clock)
                counts["ambient"] += 1
            else:
                raise sched.SimHarnessError(f"unknown op {kind}")

            if not res.violations:
                bad_inputs = envB.check_untouched()
                if bad_inputs:
                    violate("R4", "input-modified", "user input modified: " + "; ".join(bad_inputs[:3]), op)
            if sim.monitor_failures and not res.violations:
                violate("PURITY", "task", sim.monitor_failures[0], op)
            cov["states"].add(f"{st['fit'] is not None}|{st['rot']}|{st['dataless_m']}|{st['dataless_r']}|{min(st['restarted_m'], 2)}|{min(st['restarted_r'], 2)}")
            if res.violations and stop_at_first:
                break

    sim.stats.merge_into(counts)
    counts["clock_span_s"] = clock.span_seconds()
    counts["clock_jumps"] = clock.jumps
    res.stats = counts
    res.coverage = {"history": ",".join(cov["hist"]), "bigrams": sorted(cov["bigrams"]), "states": sorted(cov["states"]),
                    "cell": f"{spec.name}|{'lazy' if cfg['lazy'] else ('dask-eager' if cfg.get('dask_eager') else 'eager')}", "interleavings": list(sim.stats.digests),
                    "probes": sorted(cov["probes"])}
    res.log += [f"sched {c['op']} {c['site']} n={c['n']} {c.get('digest', '')}" for c in sim.call_log]
    return res


def _nonconv(o) -> bool:
    return (not o.ok) and o.exc_type == "RuntimeError" and "did not converge" in o.exc_msg


simplifications = common.simplifications


def nontrivial(brief: dict) -> bool:
    s = brief["stats"]
    return s.get("restarts", 0) > 0 and s.get("queries_after_restart", 0) > 0
