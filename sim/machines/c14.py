"""C14 - a model's answers depend only on its last fit, never on call history (DESIGN 6).

System: one live model object (plus at most one rotator and one bootstrapper attached to it), a
pool of user data sets, the simulated scheduler / clock / ambient RNG. The simulator is the only
caller and generates the call history. Oracle: a *fresh* object of the same class and parameters
fitted once on freshly built copies of the same arguments in a pristine ambient context.
"""
from __future__ import annotations

import copy
import json

import dask

from .. import core, gen, models, oracle, sched, seeds, space
from . import common
from ..core import RunResult, Violation

PROP = "C14"
TOL = 1e-9
TOL_BOOT = 1e-6
TOL_BOOT_DASK = 1e-3



# ----------------------------------------------------------------------------------------------
# generation
# ----------------------------------------------------------------------------------------------
def generate(seed: int, tier: str = "quick") -> dict:
    rng = seeds.stream(seed, "cfg")
    spec, cfg = common.draw_system(rng, seed, PROP, dask_eager_prob=0.2)
    # bitwise ambient-sensitivity trial (DESIGN 6.1) on a third of the eager runs of seeded classes
    cfg["ambient_trial"] = (not cfg["lazy"]) and (not cfg.get("dask_eager")) and "random_state" in cfg["params"] and seeds.stream(seed, "trial").random() < 0.33
    cfg["ops"] = generate_ops(seeds.stream(seed, "ops"), cfg, spec, tier)
    return cfg


def generate_ops(rng, cfg, spec, tier) -> list[dict]:
    n = rng.randint(6, 14 if tier == "quick" else 25)
    lazy = cfg["lazy"]
    ops: list[dict] = []
    cur = "F0"
    ops.append({"op": "fit", "fit": "F0"})
    has_rot = False
    has_boot = False
    n_modes = int(cfg["params"]["n_modes"])
    rmodes = int(cfg["rot_params"]["n_modes"]) if cfg["rot_params"] else 0

    def q_for(target):
        nm = rmodes if target == "r" else n_modes
        qs = models.draw_queries(rng, spec, cfg["fits"][cur], cfg["new"][cur], nm, k=1,
                                 rotator=(target == "r"))
        return qs[0]

    if cfg.get("focus") == "rotator" and cfg["rot_params"]:
        ops.append({"op": "rot_fit"})
        has_rot = True
    while len(ops) < n:
        r = rng.random()
        if (cfg.get("dask_eager") or lazy) and rng.random() < (0.3 if cfg.get("dask_eager") else 0.12):
            fk = rng.choice(["fit", "fit", "fit", "query", "rot"] + (["boot", "boot"] if cfg["boot_params"] else [])) if cfg.get("dask_eager") \
                else rng.choice(["compute", "compute", "query", "rot"])
            fault = {"call": rng.choice([1, 1, 1, 2, 2, 3, 4, 5, 6, 8, 10, 12]), "at": rng.choice([1, 1, 2, 3, 5, 8, 20, 60]),
                     "exc": rng.choice(["InjectedFault", "MemoryError", "OSError"])}
            if fk in ("fit", "rot") and rng.random() < 0.4:
                # the failure hits the *last* scheduler call of the fit (the final load - the largest computation, where
                # an out-of-memory failure is most likely): everything is defined but still lazy, and compute() finishes
                # what fit could not; the object must then answer like a fresh one
                fault = dict(fault, call="last")
            if fk == "fit":
                # a task failure interrupts an eager fit on dask-backed data between / inside its scheduler calls; the
                # object is undefined afterwards - and the next successful fit must be that of a fresh object
                nxt = rng.choice(["F0", "F1", "F1", "F2"])
                ops.append(dict({"op": "fit_fault", "fit": nxt}, **fault))
                has_rot = False
                has_boot = False
                nxt = rng.choice([nxt, "F0", "F1", "F2"])
                ops.append({"op": "fit", "fit": nxt})
                cur = nxt
            elif fk == "compute":
                ops.append(dict({"op": "compute_fault", "target": "m"}, **fault))
            elif fk == "query":
                # a query whose evaluation fails inside a dask computation: whatever bookkeeping the call had already
                # written must not change a later answer
                tgt = "r" if (has_rot and rng.random() < 0.4) else "m"
                ops.append(dict({"op": "query_fault", "target": tgt, "q": q_for(tgt)}, **dict(fault, call=rng.choice([1, 1, 2]))))
            elif fk == "boot":
                # bootstrapper.fit(model) fails inside its member loop; the same bootstrapper object is then fitted
                # again and must give what a fresh bootstrapper gives
                ops.append({"op": "boot_fit", "reuse": any(o["op"] == "boot_fit" for o in ops) and rng.random() < 0.5,
                            "fault": dict(fault, call=rng.choice([1, 2, 3, 5, 8, 12, 16, 20]))})
                has_boot = False
                if rng.random() < 0.75:
                    ops.append({"op": "boot_fit", "reuse": True})
                    has_boot = True
            elif fk == "rot" and cfg["rot_params"] and fault["call"] == "last" and spec.has_transform and rng.random() < 0.6:
                # scenario: rotator fitted and used, the model refitted on other data, the *same* rotator object fitted
                # again - failing in its final load - and finished by compute(), then used again
                def tq(f):
                    fx = cfg["fits"][f]
                    return {"q": "transform", "X": fx["X"]} if spec.family == "single" else {"q": "transform", "X": fx["X"], "Y": fx["Y"]}
                if not has_rot:
                    ops.append({"op": "rot_fit", "reuse": any(o["op"] == "rot_fit" for o in ops)})
                ops.append({"op": "query", "target": "r", "q": tq(cur)})
                nxt = rng.choice([f for f in ("F0", "F1", "F2") if f != cur])
                ops.append({"op": "fit", "fit": nxt})
                cur = nxt
                has_boot = False
                ops.append({"op": "rot_fit", "reuse": True, "fault": fault})
                ops.append({"op": "query", "target": "r", "q": tq(cur)})
                has_rot = False
            elif fk == "rot" and cfg["rot_params"]:
                # rotator.fit(model) fails half-way: the rotator is unusable, the base model must be intact
                ops.append(dict({"op": "rot_fit", "reuse": bool(has_rot) and rng.random() < 0.5, "fault": fault}))
                has_rot = False
            continue
        if r < 0.22:
            nxt = rng.choice(["F0", "F1", "F1", "F2"] + (["F3", "F3"] if "F3" in cfg["fits"] else []))
            ops.append({"op": "fit", "fit": nxt})
            if spec.family == "single" and spec.has_transform and rng.random() < 0.15:
                ops[-1]["via"] = "fit_transform"     # fit_transform(X) is a fit like any other; it returns transform(X)
            cur = nxt
            has_rot = False
            has_boot = False
        elif r < 0.55:
            tgt = "m"
            if has_rot and rng.random() < 0.4:
                tgt = "r"
            ops.append({"op": "query", "target": tgt, "q": q_for(tgt)})
        elif r < 0.62 and cfg["bad"][cur] and spec.has_transform:
            b = rng.choice(cfg["bad"][cur])
            if spec.family == "single":
                q = {"q": "transform", "X": b}
            else:
                q = {"q": "transform", "X": b[0], "Y": b[1]}
            ops.append({"op": "query", "target": "m", "q": q, "bad": True})
        elif r < 0.70:
            tgt = "r" if (has_rot and rng.random() < 0.4) else "m"
            ops.append({"op": "compute", "target": tgt})
        elif r < 0.76 and spec.family != "multi":
            tgt = "r" if (has_rot and rng.random() < 0.4) else "m"
            ops.append({"op": "serialize", "target": tgt})
        elif r < 0.86 and cfg["rot_params"]:
            # a rotator is a model too: half of the later rotator fits re-use the same rotator object
            ops.append({"op": "rot_fit", "reuse": bool(has_rot or any(o["op"] == "rot_fit" for o in ops)) and rng.random() < 0.5})
            has_rot = True
            # bias: what the base model can still do right after a rotator was fitted on it
            if rng.random() < 0.5:
                ops.append({"op": rng.choice(["compute", "serialize"]), "target": "m"})
        elif r < 0.90 and cfg["boot_params"]:
            ops.append({"op": "boot_fit", "reuse": any(o["op"] == "boot_fit" for o in ops) and rng.random() < 0.5})
            has_boot = True
        elif r < 0.93:
            ops.append({"op": "ambient"})
        elif r < 0.96:
            # another object of the same class is fitted on other data: objects must not share state
            ops.append({"op": "other_fit", "fit": rng.choice([f for f in cfg["fits"] if f != cur] or [cur])})
        elif lazy:
            ops.append({"op": "compute_fault", "target": "m", "at": rng.randint(1, 40), "call": rng.choice([1, 1, 2, 3]),
                        "exc": rng.choice(["InjectedFault", "MemoryError", "OSError"])})
        if has_boot and rng.random() < 0.3:
            ops.append({"op": "query", "target": "b", "q": {"q": "call", "name": rng.choice(["components", "scores", "explained_variance"]), "kw": {}}})
    for i, o in enumerate(ops):
        o["id"] = i
    return ops


# ----------------------------------------------------------------------------------------------
# execution
# ----------------------------------------------------------------------------------------------
def _ambient_trial(cfg, spec, fit_id) -> tuple[str, str]:
    """A/A'/A'' under one ambient RNG state, B/B' under another: with an integer random_state the fit must be
    bit-identical across ambient states. Returns (verdict, detail); verdict in ok | inconclusive | violation."""
    import random as _random

    import numpy as _np

    def one(state):
        _np.random.seed(state)
        _random.seed(state)
        env = models.Env(cfg["descs"])
        m = spec.cls()(**copy.deepcopy(cfg["params"]))
        out = oracle.capture(models.fit_model, spec, m, cfg["fits"][fit_id], env)
        if not out.ok:
            return None
        data = getattr(m, "data", {})
        keys = sorted(k for k in data if not str(k).startswith("input_data"))
        vals = [data[k] for k in keys]
        return oracle.digest([oracle.materialise(v) if not isinstance(v, list) else [oracle.materialise(x) for x in v] for v in vals])

    with core.reference_context():
        a = [one(1234567), one(1234567), one(1234567)]
        b = [one(7654321), one(7654321)]
    if None in a or None in b:
        return "inconclusive", "a trial fit raised"
    if len(set(a)) != 1 or len(set(b)) != 1:
        return "inconclusive", "identical fits under one ambient state are not bit-identical (floating-point noise)"
    if a[0] != b[0]:
        return "violation", ("five fresh fits with the same integer random_state: three under one global-RNG state are "
                             "bit-identical, two under another state are bit-identical, but the two groups differ")
    return "ok", ""


class _Refs:
    """Fresh-model references, memoised per run. Every reference gets its own Env (fresh objects)."""

    def __init__(self, cfg, spec):
        self.cfg, self.spec = cfg, spec
        self.models: dict = {}
        self.answers: dict = {}

    def _key(self, *a):
        return json.dumps(a, sort_keys=True, default=str)

    def model(self, fit_id, computed, fresh=False):
        k = self._key("m", fit_id, computed)
        if fresh or k not in self.models:
            with core.reference_context():
                env = models.Env(self.cfg["descs"])
                m = self.spec.cls()(**copy.deepcopy(self.cfg["params"]))
                out = oracle.capture(models.fit_model, self.spec, m, self.cfg["fits"][fit_id], env)
                if out.ok and computed:
                    out2 = oracle.capture(m.compute)
                    if not out2.ok:
                        out = out2
            if fresh:
                return (m, env, out)
            self.models[k] = (m, env, out)
        return self.models[k]

    def rotator(self, fit_id, m_computed, r_computed, fresh=False):
        k = self._key("r", fit_id, m_computed, r_computed)
        if fresh or k not in self.models:
            m, env, out = self.model(fit_id, m_computed, fresh=True)
            r = None
            if out.ok:
                with core.reference_context():
                    r = self.spec.rot_cls()(**copy.deepcopy(self.cfg["rot_params"]))
                    out = oracle.capture(r.fit, m)
                    if out.ok and r_computed:
                        out2 = oracle.capture(r.compute)
                        if not out2.ok:
                            out = out2
            if fresh:
                return (r, env, out, m)
            self.models[k] = (r, env, out, m)
        return self.models[k]

    def boot(self, fit_id):
        k = self._key("b", fit_id)
        if k not in self.models:
            from xeofs.validation import EOFBootstrapper
            m, env, out = self.model(fit_id, False, fresh=True)
            b = None
            if out.ok:
                with core.reference_context():
                    b = EOFBootstrapper(**self.cfg["boot_params"])
                    out = oracle.capture(b.fit, m)
            self.models[k] = (b, env, out, m)
        return self.models[k]

    def answer(self, obj_key, obj, env, q):
        """The reference's answer to q is that of a *pristine* fitted object: every query is put to its own deep
        copy, so that a query with a side effect cannot poison the reference the way it poisons the live object."""
        k = self._key(obj_key, q)
        if k not in self.answers:
            with core.reference_context():
                try:
                    pristine = copy.deepcopy(obj)
                except Exception:          # not copyable: fall back to the shared reference object
                    pristine = obj
                out = oracle.capture(lambda: oracle.materialise(models.run_query(self.spec, pristine, q, env)))
            self.answers[k] = out
        return self.answers[k]


def execute(cfg: dict, *, stop_at_first=True, trace=False) -> RunResult:
    seed = cfg["seed"]
    spec = models.SPECS[cfg["spec"]]
    res = RunResult(seed=seed, config=cfg)
    clock = core.SimClock(seed)
    sim = sched.SimScheduler(seed, sched.Config.from_json(cfg["sched"]))
    sim.trace_events = trace
    env = models.Env(cfg["descs"])
    refs = _Refs(cfg, spec)
    st = {"m_fit": None, "m_computed": False, "r": None, "r_valid": False, "r_key": None,
          "r_computed": False, "b": None, "b_valid": False, "b_fit": None}
    cov = {"hist": [], "bigrams": set(), "states": set(), "faults": {}}
    counts = {"ops": 0, "queries": 0, "refits": 0, "bad_calls": 0, "failed_fits": 0, "rot_fits": 0,
              "boot_fits": 0, "computes": 0, "serializes": 0, "ambient": 0, "task_faults": 0,
              "undefined_skips": 0}

    def violate(inv, symptom, detail, op, site=""):
        res.violations.append(Violation(PROP, inv, spec.name, symptom, detail, op.get("id", -1), _opk(op), site,
                                        core.config_tags(cfg)))

    # multi.CCA(pca=True) has no sign convention and no random_state (known finding): a difference by the sign of
    # whole modes is recorded once, the run goes on with the sign of whole modes left open, so that everything else
    # such a run does is still checked (the runner reports the first violation no known finding covers)
    signfree = spec.name == "MultiCCA" and bool(cfg["params"].get("pca"))
    soft = {"n": 0}

    def hard():
        return [v for v in res.violations if not (signfree and v.symptom == "values:signflip")]

    def mirrored(flag):
        # deferred sorting is documented behaviour: only classes that sort in _post_compute mirror compute()
        return bool(flag) if spec.name == "POP" else False

    def check_queries(target, qs, op, inv="H1"):
        """Put queries to the live object and to its reference; first difference is a violation."""
        for q in qs:
            if target == "m":
                obj, key = m, ("m", st["m_fit"], mirrored(st["m_computed"]))
                rm, renv, rout = refs.model(st["m_fit"], mirrored(st["m_computed"]))
                tol = TOL
            elif target == "r":
                obj, key = st["r"], ("r",) + tuple(st["r_key"]) + (st["r_computed"],)
                rm, renv, rout, _ = refs.rotator(st["r_key"][0], st["r_key"][1], st["r_computed"])
                tol = TOL
            else:
                obj, key = st["b"], ("b", st["b_fit"])
                rm, renv, rout, _ = refs.boot(st["b_fit"])
                tol = TOL_BOOT
                if cfg.get("dask_eager"):
                    # members of a dask-backed model come out of dask's randomised solver, which the bootstrapper's inner
                    # EOF leaves unseeded: reproducible "to solver accuracy" only (C20) - measured 1.3e-5 on components
                    # (soak seed 6). Only the members' explained variance is compared there, at 1e-3: what the faults
                    # aim at (members lost, duplicated, drawn from another stream) is of order one
                    if q.get("name") != "explained_variance":
                        continue
                    tol = TOL_BOOT_DASK
            if not rout.ok:
                return  # reference could not be built; the fit op has already been judged
            sim.op = f"{op['id']}q"
            got = oracle.capture(lambda: oracle.materialise(models.run_query(spec, obj, q, env)))
            want = refs.answer(key, rm, renv, q)
            counts["queries"] += 1
            res.log.append(f"  q {target} {core.jdump(q)} -> {got.kind()}")
            res.vlog.append(oracle.digest(got))
            if not got.ok and got.exc_type == "SimHarnessError":
                raise sched.SimHarnessError(got.exc_msg)
            diffs = oracle.compare(got, want, tol, path=_qname(q))
            if diffs:
                sym = core.symptom_of(diffs)
                if sym == "values" and not oracle.compare(got, want, tol, path=_qname(q), relax={"sign": True}):
                    sym = "values:signflip"     # equal up to the sign of whole modes
                if signfree and sym == "values:signflip":
                    if not soft["n"]:
                        violate(inv, sym, f"{target}.{_qname(q)}: " + "; ".join(diffs[:3]), op)
                    soft["n"] += 1
                    continue
                violate(inv, sym, f"{target}.{_qname(q)}: " + "; ".join(diffs[:3]), op)
                return

    def count_calls(fn):
        """Dry run on a scratch object: how many scheduler calls does this operation issue?"""
        mark = sim.mark()
        o = oracle.capture(fn)
        return len(sim.calls_since(mark)), o

    def probe(op, k=2, inv="H1"):
        if st["m_fit"] is None:
            counts["undefined_skips"] += 1
            return
        prng = seeds.stream(seed, f"probe/{op['id']}")
        n_modes = int(cfg["params"]["n_modes"])
        # (serialise round trips cost ~1 s each in xarray's DataTree: asked by explicit query operations and
        #  after rotator/bootstrapper fits, not by every probe)
        qs = models.draw_queries(prng, spec, cfg["fits"][st["m_fit"]], cfg["new"][st["m_fit"]], n_modes, k=k,
                                 serde=(inv == "H4" and prng.random() < 0.5))
        check_queries("m", qs, op, inv)
        if st["r_valid"] and not hard() and prng.random() < 0.5:
            rq = models.draw_queries(prng, spec, cfg["fits"][st["m_fit"]], cfg["new"][st["m_fit"]],
                                     int(cfg["rot_params"]["n_modes"]), k=1, rotator=True)
            check_queries("r", rq, op, inv)

    with core.simulated_ambient(clock), dask.config.set(scheduler=sim.get):
        core.ambient_event(seed, "start", clock)
        m = spec.cls()(**copy.deepcopy(cfg["params"]))
        prev_kind = "^"
        for op in cfg["ops"]:
            kind = op["op"]
            sim.op = str(op["id"])
            counts["ops"] += 1
            cov["hist"].append(_opk(op))
            cov["bigrams"].add(f"{prev_kind}>{_opk(op)}")
            prev_kind = _opk(op)
            res.log.append(f"op {op['id']} {_opk(op)}")

            if kind == "fit":
                if st["m_fit"] is not None or counts["failed_fits"]:
                    counts["refits"] += 1
                out = oracle.capture(models.fit_model, spec, m, cfg["fits"][op["fit"]], env, op.get("via"))
                rm, renv, rout = refs.model(op["fit"], False)
                res.log.append(f"  fit {op['fit']} -> {out.kind()} ref {rout.kind()}")
                if op.get("via") == "fit_transform" and out.ok and rout.ok:
                    counts["fit_transforms"] = counts.get("fit_transforms", 0) + 1
                    tq = {"q": "transform", "X": cfg["fits"][op["fit"]]["X"]}
                    got = oracle.capture(lambda: oracle.materialise(out.value))
                    want = refs.answer(("m", op["fit"], False), rm, renv, tq)
                    d = oracle.compare(got, want, TOL, path="fit_transform")
                    if d:
                        violate("H2" if counts["refits"] else "H1", core.symptom_of(d), "fit_transform(X) differs from a fresh model's transform(X): " + "; ".join(d[:3]), op)
                st["r_valid"] = False
                st["b_valid"] = False
                if out.kind() != rout.kind():
                    violate("H2", f"outcome:{out.kind()}!={rout.kind()}",
                            f"fit({op['fit']}) on the live object -> {out.kind()} {out.exc_msg[:160]!r}, "
                            f"on a fresh object -> {rout.kind()} {rout.exc_msg[:160]!r}", op)
                elif out.ok:
                    st["m_fit"] = op["fit"]
                    st["m_computed"] = bool(cfg["params"].get("compute", True))
                    if cfg.get("ambient_trial") and not counts.get("ambient_trials"):
                        verdict, why = _ambient_trial(cfg, spec, op["fit"])
                        counts["ambient_trials"] = 1
                        counts[f"ambient_trial_{verdict}"] = 1
                        res.log.append(f"  ambient trial -> {verdict}")
                        if verdict == "violation":
                            violate("AMBIENT", "global-rng", why, op)
                    probe(op, k=3, inv="H2" if counts["refits"] else "H1")
                else:
                    counts["failed_fits"] += 1
                    st["m_fit"] = None      # undefined until the next successful fit
            elif kind == "fit_fault":
                counts["refits"] += 1 if (st["m_fit"] is not None or counts["failed_fits"]) else 0
                call_no, last = op.get("call", 1), False
                if call_no == "last":
                    scratch = spec.cls()(**copy.deepcopy(cfg["params"]))
                    n_calls, dry = count_calls(lambda: models.fit_model(spec, scratch, cfg["fits"][op["fit"]], env))
                    # (only where fit is "build everything lazily, then one final load": OPA, ExtendedEOF, POP and
                    #  SparsePCA interleave computations with their algorithm, an interrupted eager fit of theirs is
                    #  not a deferred fit and stays undefined)
                    last = dry.ok and n_calls > 0 and spec.name in FINISHABLE and _final_load(sim.call_log[-1])
                    call_no = n_calls if last else 1
                    del scratch
                sim.cfg.permanent_at = int(op["at"])
                sim.cfg.permanent_exc = op.get("exc", "InjectedFault")
                sim.cfg.permanent_call = int(call_no)
                sim.cfg.armed_calls = 0
                out = oracle.capture(models.fit_model, spec, m, cfg["fits"][op["fit"]], env)
                fired = not out.ok and out.exc_type == sim.cfg.permanent_exc and "injected" in out.exc_msg
                sim.cfg.permanent_at = None
                sim.cfg.armed_calls = 0
                st["r_valid"] = False
                st["b_valid"] = False
                res.log.append(f"  fit_fault {op['fit']} call={op['call']} at={op['at']} -> {out.kind()}")
                if fired:
                    counts["task_faults"] += 1
                    counts["fit_faults"] = counts.get("fit_faults", 0) + 1
                    counts["failed_fits"] += 1
                    st["m_fit"] = None          # undefined until the next successful fit
                    if last:
                        fin = oracle.capture(m.compute)
                        res.log.append(f"  compute() after a fit that failed in its last scheduler call -> {fin.kind()}")
                        if fin.ok:
                            counts["finished_by_compute"] = counts.get("finished_by_compute", 0) + 1
                            st["m_fit"] = op["fit"]
                            st["m_computed"] = True
                            probe(op, k=3, inv="H2")
                else:
                    # the fit issued fewer scheduler calls / tasks than the fault position: an ordinary fit
                    rm, renv, rout = refs.model(op["fit"], False)
                    if out.kind() != rout.kind():
                        violate("H2", f"outcome:{out.kind()}!={rout.kind()}",
                                f"fit({op['fit']}) on the live object -> {out.kind()} {out.exc_msg[:160]!r}, "
                                f"on a fresh object -> {rout.kind()} {rout.exc_msg[:160]!r}", op)
                    elif out.ok:
                        st["m_fit"] = op["fit"]
                        st["m_computed"] = bool(cfg["params"].get("compute", True))
                        probe(op, k=2, inv="H2" if counts["refits"] else "H1")
                    else:
                        counts["failed_fits"] += 1
                        st["m_fit"] = None
            elif kind == "query":
                tgt = op["target"]
                if st["m_fit"] is None or (tgt == "r" and not st["r_valid"]) or (tgt == "b" and not st["b_valid"]):
                    counts["undefined_skips"] += 1
                else:
                    if op.get("bad"):
                        counts["bad_calls"] += 1
                    check_queries(tgt, [op["q"]], op)
                    if not hard():
                        probe(op, k=1)
            elif kind in ("compute", "serialize"):
                tgt = op["target"]
                if st["m_fit"] is None or (tgt == "r" and not st["r_valid"]):
                    counts["undefined_skips"] += 1
                else:
                    obj = m if tgt == "m" else st["r"]
                    fn = obj.compute if kind == "compute" else obj.serialize
                    out = oracle.capture(fn)
                    # the same call on a fresh reference object in the same abstract state
                    if tgt == "m":
                        fm, _, fo = refs.model(st["m_fit"], mirrored(st["m_computed"]), fresh=True)
                    else:
                        fm, _, fo, _ = refs.rotator(st["r_key"][0], st["r_key"][1], st["r_computed"], fresh=True)
                    with core.reference_context():
                        rout = oracle.capture(fm.compute if kind == "compute" else fm.serialize) if fo.ok else fo
                    counts["computes" if kind == "compute" else "serializes"] += 1
                    res.log.append(f"  {kind} {tgt} -> {out.kind()} ref {rout.kind()}")
                    if out.kind() != rout.kind():
                        inv = "H4" if (tgt == "m" and (st["r"] is not None or st["b"] is not None)) else "H1"
                        violate(inv, f"outcome:{out.kind()}!={rout.kind()}",
                                f"{tgt}.{kind}() -> {out.kind()} {out.exc_msg[:160]!r}; fresh object in the same state -> {rout.kind()}", op)
                    elif out.ok and kind == "compute":
                        if tgt == "m":
                            st["m_computed"] = True
                        else:
                            st["r_computed"] = True
                    if not hard():
                        probe(op, k=2)
            elif kind == "rot_fit":
                if st["m_fit"] is None:
                    counts["undefined_skips"] += 1
                else:
                    if op.get("reuse") and st["r"] is not None:
                        r = st["r"]                       # the same rotator object, fitted again
                        counts["rot_refits"] = counts.get("rot_refits", 0) + 1
                    else:
                        r = spec.rot_cls()(**copy.deepcopy(cfg["rot_params"]))
                    flt = op.get("fault")
                    rlast = False
                    if flt:
                        call_no = flt["call"]
                        if call_no == "last":
                            scratch = spec.rot_cls()(**copy.deepcopy(cfg["rot_params"]))
                            n_calls, dry = count_calls(lambda: scratch.fit(m))
                            rlast = dry.ok and n_calls > 0 and _final_load(sim.call_log[-1])
                            call_no = n_calls if rlast else 1
                            del scratch
                        sim.cfg.permanent_at = int(flt["at"])
                        sim.cfg.permanent_exc = flt["exc"]
                        sim.cfg.permanent_call = int(call_no)
                        sim.cfg.armed_calls = 0
                    out = oracle.capture(r.fit, m)
                    if flt:
                        sim.cfg.permanent_at = None
                        sim.cfg.armed_calls = 0
                    if flt and not out.ok and out.exc_type == flt["exc"] and "injected" in out.exc_msg:
                        # the rotator is undefined; the base model must answer as before (H4)
                        counts["task_faults"] += 1
                        counts["rot_fit_faults"] = counts.get("rot_fit_faults", 0) + 1
                        st["r_valid"] = False
                        st["r"] = r          # kept: the same rotator object may be fitted again
                        res.log.append(f"  rot_fit under an injected fault -> {out.kind()}")
                        if rlast:
                            fin = oracle.capture(r.compute)
                            res.log.append(f"  rotator.compute() after a fit that failed in its last scheduler call -> {fin.kind()}")
                            if fin.ok:
                                counts["finished_by_compute"] = counts.get("finished_by_compute", 0) + 1
                                st.update(r_valid=True, r_key=(st["m_fit"], mirrored(st["m_computed"])), r_computed=True)
                                rq = models.draw_queries(seeds.stream(seed, f"rotq/{op['id']}"), spec, cfg["fits"][st["m_fit"]],
                                                         cfg["new"][st["m_fit"]], int(cfg["rot_params"]["n_modes"]), k=3,
                                                         rotator=True, serde=False)
                                check_queries("r", rq, op, "H2" if op.get("reuse") else "H1")
                        if not hard():
                            probe(op, k=3, inv="H4")
                        if not hard():
                            check_queries("m", [{"q": "params"}], op, inv="H4")
                        # (falls through to the common end-of-operation checks)
                        out = None
                    key = (st["m_fit"], mirrored(st["m_computed"]))
                    if out is None:
                        rout = None
                    else:
                        _, _, rout, _ = refs.rotator(key[0], key[1], bool(cfg["rot_params"]["compute"]))
                        counts["rot_fits"] += 1
                        res.log.append(f"  rot_fit -> {out.kind()} ref {rout.kind()}")
                    if out is None:
                        pass
                    elif _nonconv(out) or _nonconv(rout):
                        # numerical cliff (iteration count vs rtol): not judged, rotator unusable
                        counts["inconclusive"] = counts.get("inconclusive", 0) + 1
                        st["r_valid"] = False
                    elif out.kind() != rout.kind():
                        violate("H1", f"outcome:{out.kind()}!={rout.kind()}",
                                f"rotator.fit(model) -> {out.kind()} {out.exc_msg[:160]!r}; with a fresh model -> {rout.kind()} {rout.exc_msg[:160]!r}", op)
                    elif out.ok:
                        st.update(r=r, r_valid=True, r_key=key, r_computed=bool(cfg["rot_params"]["compute"]))
                        # H4: the base model's own results and labels are intact
                        probe(op, k=3, inv="H4")
                        if not hard():
                            rq = models.draw_queries(seeds.stream(seed, f"rotq/{op['id']}"), spec, cfg["fits"][st["m_fit"]],
                                                     cfg["new"][st["m_fit"]], int(cfg["rot_params"]["n_modes"]), k=2,
                                                     rotator=True, serde=False)
                            check_queries("r", rq, op, "H2" if op.get("reuse") else "H1")
                        if not hard():
                            check_queries("m", [{"q": "params"}], op, inv="H4")
                        if not hard() and spec.family != "multi":
                            check_queries("m", [{"q": "serde", "sub": {"q": "call", "name": "scores", "kw": {}}}], op, inv="H4")
            elif kind == "boot_fit":
                if st["m_fit"] is None:
                    counts["undefined_skips"] += 1
                else:
                    from xeofs.validation import EOFBootstrapper
                    if op.get("reuse") and st["b"] is not None:
                        b = st["b"]
                        counts["boot_refits"] = counts.get("boot_refits", 0) + 1
                    else:
                        b = EOFBootstrapper(**cfg["boot_params"])
                    flt = op.get("fault")
                    if flt:
                        sim.cfg.permanent_at, sim.cfg.permanent_exc, sim.cfg.permanent_call = int(flt["at"]), flt["exc"], int(flt["call"])
                        sim.cfg.armed_calls = 0
                    out = oracle.capture(b.fit, m)
                    if flt:
                        sim.cfg.permanent_at = None
                        sim.cfg.armed_calls = 0
                    _, _, rout, _ = refs.boot(st["m_fit"])
                    counts["boot_fits"] += 1
                    res.log.append(f"  boot_fit -> {out.kind()} ref {rout.kind()}")
                    if flt and not out.ok and out.exc_type == flt["exc"] and "injected" in out.exc_msg:
                        # the bootstrapper is undefined (and kept: it may be fitted again); the model must be intact
                        counts["task_faults"] += 1
                        counts["boot_fit_faults"] = counts.get("boot_fit_faults", 0) + 1
                        st.update(b=b, b_valid=False)
                        probe(op, k=2, inv="H4")
                    elif out.kind() != rout.kind():
                        violate("H1", f"outcome:{out.kind()}!={rout.kind()}",
                                f"bootstrapper.fit(model) -> {out.kind()} {out.exc_msg[:160]!r}; with a fresh model -> {rout.kind()}", op)
                    elif out.ok:
                        st.update(b=b, b_valid=True, b_fit=st["m_fit"])
                        probe(op, k=3, inv="H4")
                        if not hard():
                            # the bootstrapper's own answers right after (re)fitting it
                            bq = [{"q": "call", "name": nm_, "kw": {}} for nm_ in ("explained_variance", "components", "scores")]
                            check_queries("b", bq[:2] if not op.get("reuse") else bq, op, "H2" if op.get("reuse") else "H1")
            elif kind == "ambient":
                core.ambient_event(seed, str(op["id"]), clock)
                counts["ambient"] += 1
            elif kind == "other_fit":
                other = spec.cls()(**copy.deepcopy(cfg["params"]))
                oenv = models.Env(cfg["descs"])
                oo = oracle.capture(models.fit_model, spec, other, cfg["fits"][op["fit"]], oenv)
                if oo.ok:
                    oracle.capture(lambda: oracle.materialise(models.run_query(spec, other, {"q": "call", "name": "scores", "kw": {}}, oenv)))
                counts["other_fits"] = counts.get("other_fits", 0) + 1
                res.log.append(f"  other object fit({op['fit']}) -> {oo.kind()}")
                del other
                if not hard():
                    probe(op, k=3)
            elif kind == "query_fault":
                tgt = op["target"]
                if st["m_fit"] is None or (tgt == "r" and not st["r_valid"]):
                    counts["undefined_skips"] += 1
                else:
                    obj = m if tgt == "m" else st["r"]
                    sim.cfg.permanent_at = int(op["at"])
                    sim.cfg.permanent_exc = op.get("exc", "InjectedFault")
                    sim.cfg.permanent_call = int(op.get("call", 1))
                    sim.cfg.armed_calls = 0
                    out = oracle.capture(lambda: oracle.materialise(models.run_query(spec, obj, op["q"], env)))
                    fired = not out.ok and out.exc_type == sim.cfg.permanent_exc and "injected" in out.exc_msg
                    sim.cfg.permanent_at = None
                    sim.cfg.armed_calls = 0
                    res.log.append(f"  query_fault {tgt} {core.jdump(op['q'])} -> {out.kind()}")
                    if fired:
                        counts["task_faults"] += 1
                        counts["query_faults"] = counts.get("query_faults", 0) + 1
                    if not out.ok and out.exc_type == "SimHarnessError":
                        raise sched.SimHarnessError(out.exc_msg)
                    # whatever happened to that call, later answers are those of the fresh model
                    check_queries(tgt, [op["q"]], op)
                    if not hard():
                        probe(op, k=2)
            elif kind == "compute_fault":
                if st["m_fit"] is None or st["m_computed"]:
                    counts["undefined_skips"] += 1
                else:
                    sim.cfg.permanent_at = int(op["at"])
                    sim.cfg.permanent_exc = op.get("exc", "InjectedFault")
                    sim.cfg.permanent_call = int(op.get("call", 1))
                    sim.cfg.armed_calls = 0
                    out = oracle.capture(m.compute)
                    fired = not out.ok and out.exc_type == sim.cfg.permanent_exc
                    sim.cfg.permanent_at = None
                    sim.cfg.armed_calls = 0
                    res.log.append(f"  compute_fault at={op['at']} -> {out.kind()}")
                    if fired:
                        counts["task_faults"] += 1
                    elif out.ok:
                        st["m_computed"] = True
                    else:
                        violate("H1", f"outcome:{out.kind()}", f"compute() under an injected {op.get('exc')} raised {out.kind()}: {out.exc_msg[:200]}", op)
                    if not hard():
                        probe(op, k=2)
            else:
                raise sched.SimHarnessError(f"unknown op {kind}")

            # H3 after every operation: nothing the user handed in was modified
            if not hard():
                bad_inputs = env.check_untouched()
                if bad_inputs:
                    violate("H3", "input-modified", "user input modified: " + "; ".join(bad_inputs[:3]), op)
            if sim.monitor_failures and not hard():
                violate("PURITY", "task", sim.monitor_failures[0], op)
            cov["states"].add(_abstract(st, cfg))
            if hard() and stop_at_first:
                break

    sim.stats.merge_into(counts)
    counts["clock_span_s"] = clock.span_seconds()
    counts["clock_jumps"] = clock.jumps
    res.stats = counts
    res.coverage = {"history": ",".join(cov["hist"]), "bigrams": sorted(cov["bigrams"]),
                    "states": sorted(cov["states"]), "cell": f"{spec.name}|{'lazy' if cfg['lazy'] else ('dask-eager' if cfg.get('dask_eager') else 'eager')}",
                    "interleavings": list(sim.stats.digests)}
    res.log += [f"sched {c['op']} {c['site']} n={c['n']} {c.get('digest', '')}" for c in sim.call_log]
    if trace:
        res.log += sim.event_log
    return res


FINISHABLE = ("EOF", "MCA", "CCA", "RDA", "CPCCA")


def _final_load(call: dict) -> bool:
    """Was this scheduler call the joint load at the end of fit / rotator.fit?"""
    site = call.get("site", "")
    return site.startswith("xeofs/data_container/data_container.py:compute") or site.startswith("xeofs/base_model.py:compute")


def _nonconv(o) -> bool:
    return (not o.ok) and o.exc_type == "RuntimeError" and "did not converge" in o.exc_msg


def _opk(op):
    k = op["op"]
    if k == "fit":
        return f"fit:{op['fit']}" + ("/ft" if op.get("via") else "")
    if k == "query":
        return f"q{op['target']}:{_qname(op['q'])}" + ("!" if op.get("bad") else "")
    if k in ("compute", "serialize"):
        return f"{k}:{op['target']}"
    if k == "other_fit":
        return f"other_fit:{op['fit']}"
    if k == "fit_fault":
        return f"fit_fault:{op['fit']}"
    if k == "query_fault":
        return f"qfault{op['target']}:{_qname(op['q'])}"
    if k == "rot_fit" and op.get("fault"):
        return "rot_fit_fault"
    if k == "boot_fit" and op.get("fault"):
        return "boot_fit_fault"
    return k


def _qname(q):
    if q["q"] == "call":
        return q["name"]
    if q["q"] == "serde":
        return "serde." + _qname(q["sub"])
    return q["q"]


def _abstract(st, cfg):
    return "|".join(str(x) for x in (
        st["m_fit"] is not None, st["m_computed"], st["r"] is not None, st["r_valid"], st["r_computed"],
        st["b_valid"], cfg["lazy"]))


simplifications = common.simplifications


def nontrivial(brief: dict) -> bool:
    s = brief["stats"]
    return (s.get("refits", 0) + s.get("rot_fits", 0) + s.get("boot_fits", 0) + s.get("task_faults", 0)) > 0 \
        and s.get("queries", 0) > 0
