"""Seed tree: one integer decides everything (DESIGN 2.1).

Every random decision of a run is drawn from a *named* sub-stream derived from the run seed with
blake2b, so deleting an operation while minimising does not shift the randomness of the others.
Nothing in here reads a clock or the global RNG.
"""
from __future__ import annotations

import hashlib
import random

import numpy as np

BATCH_STRIDE = 1_000_003


def run_seed(batch_seed: int, i: int) -> int:
    return int(batch_seed) * BATCH_STRIDE + int(i)


def sub_int(seed: int, label: str, bits: int = 63) -> int:
    h = hashlib.blake2b(f"{int(seed)}|{label}".encode(), digest_size=8).digest()
    return int.from_bytes(h, "big") >> (64 - bits)


def stream(seed: int, label: str) -> random.Random:
    return random.Random(sub_int(seed, label))


def np_stream(seed: int, label: str) -> np.random.Generator:
    return np.random.default_rng(sub_int(seed, label))


def digest_bytes(*parts: bytes) -> str:
    h = hashlib.blake2b(digest_size=12)
    for p in parts:
        h.update(p)
    return h.hexdigest()


def digest_text(text: str) -> str:
    return hashlib.blake2b(text.encode(), digest_size=12).hexdigest()
