"""Command line of the harness. Invoked through /verif/check (which pins PYTHONHASHSEED and threads)."""
from __future__ import annotations

import json
import os
import sys

_HERE = os.path.dirname(os.path.abspath(__file__))
sys.path.insert(0, os.path.dirname(_HERE))

import sim  # noqa: E402  (sets sys.path for /repo and the stubs, pins BLAS threads)


def main(argv=None) -> int:
    argv = list(sys.argv[1:] if argv is None else argv)
    if not argv:
        print(__doc__)
        return 2
    cmd = argv[0]
    if cmd in ("C12", "C13", "C14"):
        tier = argv[1] if len(argv) > 1 else os.environ.get("VERIF_TIER", "quick")
        seed = int(os.environ.get("VERIF_SEED", "0"))
        from sim import runner
        kw = {}
        for a in argv[2:]:
            if a.startswith("--budget="):
                kw["budget"] = float(a.split("=", 1)[1])
            if a.startswith("--runs="):
                kw["max_runs"] = int(a.split("=", 1)[1])
            if a.startswith("--workers="):
                kw["workers"] = int(a.split("=", 1)[1])
        return runner.batch(cmd, tier, seed, **kw)
    if cmd == "replay":
        import warnings
        warnings.filterwarnings("ignore")
        from sim import minimise
        path = argv[1]
        quiet = "--quiet" in argv
        got, rec = minimise.replay(path)
        exp = rec["violation"]
        if got is None:
            print(f"NOT-REPRODUCED property={rec['property']} replay={path} (no violation on this tree)")
            return 0
        same = got == exp
        if not quiet:
            print(json.dumps(got, indent=1, sort_keys=True))
        print(f"VIOLATION property={rec['property']} replay={path}")
        print("REPRODUCED" if same else "REPRODUCED-DIFFERENTLY (same file, different record: see above)")
        return 1
    if cmd == "run":
        # one seed, verbose: check run C14 <seed> [tier]
        import warnings
        warnings.filterwarnings("ignore")
        from sim import runner
        m = runner.machine(argv[1])
        cfg = m.generate(int(argv[2]), argv[3] if len(argv) > 3 else "quick")
        res = m.execute(cfg)
        print("\n".join(res.log))
        for v in res.violations:
            print(json.dumps(v.to_json(), indent=1))
        print(json.dumps(res.stats, sort_keys=True))
        return 1 if res.violations else 0
    if cmd == "setup":
        # nothing to build: verify that everything the checks import is present, offline
        import dask, numpy, scipy, sklearn, xarray, xeofs  # noqa: F401
        import statsmodels  # noqa: F401  (the /verif shim unless a real one is installed)
        from sim import runner
        for mod in runner.MACHINES.values():
            __import__(mod)
        print(f"setup ok: xeofs from {os.path.dirname(xeofs.__file__)}, dask {dask.__version__}, "
              f"xarray {xarray.__version__}, numpy {numpy.__version__}, statsmodels shim {statsmodels.__version__}")
        return 0
    if cmd == "minimise":
        # check minimise C14 <seed> [tier]: minimise the first violation of one run and write its replay file
        import warnings
        warnings.filterwarnings("ignore")
        from sim import minimise, runner
        m = runner.machine(argv[1])
        cfg = m.generate(int(argv[2]), argv[3] if len(argv) > 3 else "quick")
        res = m.execute(cfg)
        if not res.violations:
            print("no violation")
            return 0
        rec = minimise.minimise_and_write(argv[1], cfg, res.violations[0].to_json(), budget=240, workers=16)
        print(rec["path"], rec["history"], rec["minimised"])
        print(json.dumps(rec["violation"], indent=1))
        return 1
    if cmd == "reminimise":
        # check reminimise <replay file>: re-run the file's configuration, minimise again, write a new file
        import warnings
        warnings.filterwarnings("ignore")
        from sim import minimise, runner
        rec = json.load(open(argv[1]))
        m = runner.machine(rec["property"])
        res = m.execute(rec["config"])
        if not res.violations:
            print("no violation")
            return 0
        out = minimise.minimise_and_write(rec["property"], rec["config"], res.violations[0].to_json(), budget=240, workers=16)
        print(out["path"], out["history"], out["minimised"])
        print(json.dumps(out["violation"], indent=1))
        return 1
    if cmd == "_digests":
        from sim import selftest
        return selftest.digests_main(argv[1:])
    if cmd == "selftest":
        from sim import selftest
        return selftest.main(argv[1:])
    if cmd == "sensitivity":
        from sim import sensitivity
        return sensitivity.main(argv[1:])
    print(f"unknown command {cmd}")
    return 2


if __name__ == "__main__":
    sys.exit(main())
