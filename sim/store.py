"""SimStore: durable state and restart (DESIGN 2.5).

The *medium* is the stub (zarr / netCDF4 / h5netcdf are not installed); everything that the
installed xarray and xeofs code does to a model tree on its way to and from a store is real:
xeofs' insert_placeholders and attribute codecs, xarray's write-time validators, CF encoding and
decoding, zarr's attribute encoder followed by a JSON round trip.
"""
from __future__ import annotations

import json

import numpy as np
import xarray as xr
from xarray import conventions
from xarray.backends.common import ArrayWriter
from xarray.backends.memory import InMemoryDataStore
from xarray.backends.writers import _validate_attrs, _validate_dataset_names

from xeofs.utils.io import _desanitize_attrs_nc, _sanitize_attrs_nc, insert_placeholders

CODECS = ("direct", "netcdf", "zarr")


def _cf_roundtrip(ds: xr.Dataset) -> xr.Dataset:
    # dask-backed variables are computed first (through whatever scheduler is installed) and then written;
    # writing them through dask.array.store would put InMemoryDataStore's *uninitialised* target arrays
    # into the task graph as literals, i.e. garbage bytes into the task labels (breaks replay)
    ds = ds.load()
    store = InMemoryDataStore()
    writer = ArrayWriter()
    ds.dump_to_store(store, writer=writer, encoder=conventions.cf_encoder)
    writer.sync()          # dask-backed sources are written only here (as to_netcdf/to_zarr do)
    out = xr.open_dataset(store).load()
    out.close()
    return out


def _tree_to_dict(dt: xr.DataTree) -> dict:
    return {node.path: node.to_dataset(inherit=False) for node in dt.subtree}


def _json_attrs(attrs: dict) -> dict:
    from xarray.backends.zarr import encode_zarr_attr_value
    out = {}
    for k, v in attrs.items():
        if not isinstance(k, str):
            raise TypeError(f"zarr attribute names must be strings, got {k!r}")
        out[k] = json.loads(json.dumps(encode_zarr_attr_value(v)))
    return out


class SimStore:
    """One durable slot. ``put`` encodes as the chosen route would write; ``get`` decodes as it would read."""

    def __init__(self):
        self.slot = None
        self.codec = None
        self.puts = 0

    def put(self, dt: xr.DataTree, codec: str, save_data: bool = False):
        if codec == "direct":
            self.slot = dt
        elif codec == "netcdf":
            if not save_data:
                dt = insert_placeholders(dt)
            dt = _sanitize_attrs_nc(dt)
            nodes = {}
            for path, ds in _tree_to_dict(dt).items():
                _validate_dataset_names(ds)
                _validate_attrs(ds, "netcdf4")
                nodes[path] = _cf_roundtrip(ds)
            self.slot = (nodes, dt.name)
        elif codec == "zarr":
            if not save_data:
                dt = insert_placeholders(dt)
            nodes = {}
            for path, ds in _tree_to_dict(dt).items():
                _validate_dataset_names(ds)
                ds = ds.copy()
                ds.attrs = _json_attrs(ds.attrs)
                for v in ds.variables:
                    ds[v].attrs = _json_attrs(ds[v].attrs)
                nodes[path] = _cf_roundtrip(ds)
            self.slot = (nodes, dt.name)
        else:
            raise ValueError(codec)
        self.codec = codec
        self.puts += 1

    def get(self) -> xr.DataTree:
        if self.codec == "direct":
            return self.slot
        nodes, name = self.slot
        if self.codec == "zarr":
            # open_model_tree(..., chunks={}) : every variable comes back dask-backed
            nodes = {p: ds.chunk() for p, ds in nodes.items()}
        dt = xr.DataTree.from_dict(nodes, name=name)
        if self.codec == "netcdf":
            dt = _desanitize_attrs_nc(dt)
        return dt


class SimDisk:
    """The same medium behind xarray's own entry points, so that the *real* ``model.save(path, engine=...)`` and
    ``Model.load(path, engine=...)`` run (compute(), serialize(), insert_placeholders, write_model_tree,
    open_model_tree, deserialize) instead of a replica of their steps: ``DataTree.to_netcdf`` / ``DataTree.to_zarr``
    write into a dictionary of paths, ``xarray.open_datatree`` reads from it. What the real engines add (type
    coercions, refusal of complex numbers by netCDF4) is not reproduced."""

    def __init__(self):
        self.files: dict = {}
        self._saved = None

    # -- the three patched entry points ------------------------------------------------------------
    def _to_netcdf(self, dt, path=None, mode="w", engine=None, **kwargs):
        nodes = {}
        for p, ds in _tree_to_dict(dt).items():
            _validate_dataset_names(ds)
            _validate_attrs(ds, "netcdf4")
            nodes[p] = _cf_roundtrip(ds)
        self.files[str(path)] = ("netcdf", nodes, dt.name)

    def _to_zarr(self, dt, store=None, mode="w-", **kwargs):
        if mode == "w-" and str(store) in self.files:
            raise FileExistsError(f"path {store!r} contains a group")
        nodes = {}
        for p, ds in _tree_to_dict(dt).items():
            _validate_dataset_names(ds)
            ds = ds.copy()
            ds.attrs = _json_attrs(ds.attrs)
            for v in ds.variables:
                ds[v].attrs = _json_attrs(ds[v].attrs)
            nodes[p] = _cf_roundtrip(ds)
        self.files[str(store)] = ("zarr", nodes, dt.name)

    def _open_datatree(self, path, engine=None, chunks=None, **kwargs):
        if str(path) not in self.files:
            raise FileNotFoundError(str(path))
        kind, nodes, name = self.files[str(path)]
        want = "zarr" if engine == "zarr" else "netcdf"
        if kind != want:
            raise ValueError(f"{path!r} was written by another engine family ({kind}) than it is opened with ({engine})")
        if chunks is not None:
            nodes = {p: ds.chunk(chunks) for p, ds in nodes.items()}
        else:
            nodes = {p: ds.copy() for p, ds in nodes.items()}
        return xr.DataTree.from_dict(nodes, name=name)

    def __enter__(self):
        disk = self
        self._saved = (xr.DataTree.to_netcdf, xr.DataTree.to_zarr, xr.open_datatree)
        xr.DataTree.to_netcdf = lambda dt, *a, **k: disk._to_netcdf(dt, *a, **k)
        xr.DataTree.to_zarr = lambda dt, *a, **k: disk._to_zarr(dt, *a, **k)
        xr.open_datatree = lambda *a, **k: disk._open_datatree(*a, **k)
        return self

    def __exit__(self, *exc):
        xr.DataTree.to_netcdf, xr.DataTree.to_zarr, xr.open_datatree = self._saved
        return False
