"""Comparators and digests (DESIGN 2.7).

``Outcome`` wraps what a call did: a value or an exception type. ``compare`` returns a list of
human-readable differences (empty = equal). Attributes, names and encodings are ignored on
purpose; dims are compared as sets, coordinates as sequences per dimension, values within
``tol * scale`` where scale is the largest magnitude in the reference.
"""
from __future__ import annotations

import hashlib
import traceback
import warnings
from dataclasses import dataclass
from typing import Any

import numpy as np
import pandas as pd
import xarray as xr


@dataclass
class Outcome:
    ok: bool
    value: Any = None
    exc_type: str = ""
    exc_msg: str = ""
    tb: str = ""

    def kind(self) -> str:
        return "ok" if self.ok else f"exc:{self.exc_type}"


class RunTimeout(BaseException):
    """Wall cap of one simulated run (raised from SIGALRM); never an outcome of the system under test."""


class InjectedFault(Exception):
    """Raised by the simulated scheduler for an injected permanent task failure."""


def capture(fn, *a, **k) -> Outcome:
    try:
        with warnings.catch_warnings():
            warnings.simplefilter("ignore")
            v = fn(*a, **k)
        return Outcome(True, v)
    except (KeyboardInterrupt, SystemExit, RunTimeout):
        raise
    except MemoryError as e:
        if "injected" not in str(e):
            raise
        return Outcome(False, None, type(e).__name__, str(e)[:300], "")
    except BaseException as e:  # noqa: BLE001 - the outcome *is* the exception type
        return Outcome(False, None, type(e).__name__, str(e)[:300], traceback.format_exc(limit=8))


def materialise(v):
    """Load lazy results (through whatever scheduler is installed)."""
    if isinstance(v, (list, tuple)):
        return type(v)(materialise(x) for x in v)
    if isinstance(v, dict):
        return {k: materialise(x) for k, x in v.items()}
    if isinstance(v, (xr.DataArray, xr.Dataset)):
        return v.compute()
    return v


def is_lazy(v) -> bool:
    if isinstance(v, (list, tuple)):
        return any(is_lazy(x) for x in v)
    if isinstance(v, xr.DataArray):
        return v.chunks is not None
    if isinstance(v, xr.Dataset):
        return any(x.chunks is not None for x in v.data_vars.values())
    return False


# ----------------------------------------------------------------------------------------------
def _index_equal(a: xr.DataArray, b: xr.DataArray, dim: str) -> str | None:
    ia, ib = a.indexes.get(dim), b.indexes.get(dim)
    if ia is None and ib is None:
        return None
    if ia is None or ib is None:
        return f"dim {dim}: index present on one side only"
    if isinstance(ia, pd.MultiIndex) != isinstance(ib, pd.MultiIndex):
        return f"dim {dim}: MultiIndex on one side only"
    if len(ia) != len(ib):
        return f"dim {dim}: length {len(ia)} != {len(ib)}"
    if isinstance(ia, pd.MultiIndex):
        if list(ia.names) != list(ib.names):
            return f"dim {dim}: level names {list(ia.names)} != {list(ib.names)}"
        if list(ia) != list(ib):
            return f"dim {dim}: MultiIndex labels differ"
        return None
    if not ia.equals(ib):
        try:
            if np.array_equal(np.asarray(ia), np.asarray(ib)):
                return None
        except Exception:
            pass
        return f"dim {dim}: labels differ ({list(ia[:4])}.. vs {list(ib[:4])}..)"
    return None


def _values_diff(x: np.ndarray, y: np.ndarray, tol: float) -> str | None:
    if x.shape != y.shape:
        return f"shape {x.shape} != {y.shape}"
    if x.dtype.kind in "iub" and y.dtype.kind in "iub":
        if not np.array_equal(x, y):
            return "integer/bool values differ"
        return None
    if x.dtype.kind in "OUSM" or y.dtype.kind in "OUSM":
        if not np.array_equal(x, y):
            return "object/str/datetime values differ"
        return None
    x = np.asarray(x, dtype=complex if (np.iscomplexobj(x) or np.iscomplexobj(y)) else float)
    y = np.asarray(y, dtype=x.dtype)
    nx, ny = np.isnan(x), np.isnan(y)
    if not np.array_equal(nx, ny):
        return f"NaN pattern differs ({int(nx.sum())} vs {int(ny.sum())} NaNs)"
    ix, iy = np.isinf(x), np.isinf(y)
    if not np.array_equal(ix, iy) or not np.array_equal(x[ix], y[iy]):
        return "inf pattern differs"
    m = ~(nx | ix)
    if not m.any():
        return None
    xs, ys = x[m], y[m]
    scale = max(float(np.max(np.abs(ys))), float(np.max(np.abs(xs))), 1e-300)
    err = float(np.max(np.abs(xs - ys)))
    if err > tol * scale:
        return f"values differ: max|d|={err:.3e} scale={scale:.3e} rel={err / scale:.3e} tol={tol:.1e}"
    return None


def _compare_da(a: xr.DataArray, b: xr.DataArray, tol: float, path: str, relax: dict | None) -> list[str]:
    out = []
    if set(a.dims) != set(b.dims):
        return [f"{path}: dims {a.dims} != {b.dims}"]
    if a.dims != b.dims:
        if not (relax and relax.get("dim_order")):
            # the order of the dimensions is part of the answer (both routes run the same code)
            return [f"{path}: dims order {a.dims} != {b.dims}"]
        a = a.transpose(*b.dims)
    for d in b.dims:
        r = _index_equal(a, b, d)
        if r:
            out.append(f"{path}: {r}")
    if out:
        return out
    x, y = np.asarray(a.values), np.asarray(b.values)
    r = _values_diff(x, y, tol)
    if r and relax and "mode" in b.dims and x.shape == y.shape:
        ax = b.dims.index("mode")
        xm, ym = np.moveaxis(x, ax, 0), np.moveaxis(y, ax, 0)
        if relax.get("sign"):
            fixed = np.array(xm, copy=True)
            for i in range(xm.shape[0]):
                if relax["sign"] is True or (i + 1) in relax["sign"]:
                    if _values_diff(-xm[i], ym[i], tol) is None or \
                            np.nansum(np.abs(-xm[i] - ym[i])) < np.nansum(np.abs(xm[i] - ym[i])):
                        fixed[i] = -xm[i]
            r = _values_diff(fixed, ym, tol)
    if r and relax and relax.get("sign") and "mode" not in b.dims and x.shape == y.shape:
        # a single mode whose 'mode' dimension was squeezed away (Dataset output of a one-mode model)
        if _values_diff(-x, y, tol) is None:
            r = None
    if r:
        out.append(f"{path}: {r}")
    return out


def compare(a, b, tol: float, path: str = "", relax: dict | None = None) -> list[str]:
    """Differences between subject value ``a`` and reference value ``b``."""
    if isinstance(a, Outcome) or isinstance(b, Outcome):
        if a.kind() != b.kind():
            da = a.exc_msg if not a.ok else ""
            db = b.exc_msg if not b.ok else ""
            return [f"{path}: outcome {a.kind()} ({da[:120]}) != reference {b.kind()} ({db[:120]})"]
        if not a.ok:
            return []
        return compare(a.value, b.value, tol, path, relax)
    if isinstance(b, (list, tuple)):
        if not isinstance(a, (list, tuple)) or len(a) != len(b):
            return [f"{path}: sequence length/type differs"]
        out = []
        for i, (x, y) in enumerate(zip(a, b)):
            out += compare(x, y, tol, f"{path}[{i}]", relax)
        return out
    if isinstance(b, dict):
        if not isinstance(a, dict) or sorted(map(str, a)) != sorted(map(str, b)):
            return [f"{path}: dict keys differ: {sorted(map(str, a)) if isinstance(a, dict) else type(a)} vs {sorted(map(str, b))}"]
        out = []
        for k in b:
            out += compare(a[k], b[k], tol, f"{path}.{k}", relax)
        return out
    if isinstance(b, xr.Dataset):
        if not isinstance(a, xr.Dataset):
            return [f"{path}: type {type(a).__name__} != Dataset"]
        if sorted(map(str, a.data_vars)) != sorted(map(str, b.data_vars)):
            return [f"{path}: variables {sorted(map(str, a.data_vars))} != {sorted(map(str, b.data_vars))}"]
        out = []
        for v in b.data_vars:
            out += _compare_da(a[v], b[v], tol, f"{path}.{v}", relax)
        return out
    if isinstance(b, xr.DataArray):
        if not isinstance(a, xr.DataArray):
            return [f"{path}: type {type(a).__name__} != DataArray"]
        return _compare_da(a, b, tol, path, relax)
    if b is None or a is None:
        return [] if (a is None and b is None) else [f"{path}: None on one side"]
    if isinstance(b, (bool, str)) or isinstance(a, (bool, str)):
        return [] if (a == b and type(a) is type(b)) or a == b else [f"{path}: {a!r} != {b!r}"]
    if isinstance(b, (int, float, complex, np.generic)):
        r = _values_diff(np.asarray(a), np.asarray(b), tol)
        return [f"{path}: {r}"] if r else []
    if isinstance(b, np.ndarray):
        r = _values_diff(np.asarray(a), b, tol)
        return [f"{path}: {r}"] if r else []
    return [] if a == b else [f"{path}: {a!r} != {b!r}"]


def params_equal(a: dict, b: dict) -> list[str]:
    """get_params() equality modulo list/tuple and numpy scalar types (C13 R1)."""
    def norm(v):
        if isinstance(v, (list, tuple)):
            return [norm(x) for x in v]
        if isinstance(v, dict):
            return {str(k): norm(x) for k, x in v.items()}
        if isinstance(v, np.generic):
            return v.item()
        return v
    na, nb = norm(a), norm(b)
    out = []
    for k in sorted(set(na) | set(nb)):
        if k not in na or k not in nb:
            out.append(f"param {k}: present on one side only")
        elif na[k] != nb[k] or type(na[k]) is not type(nb[k]) and not (
                isinstance(na[k], (int, float)) and isinstance(nb[k], (int, float))
                and not isinstance(na[k], bool) and not isinstance(nb[k], bool)):
            out.append(f"param {k}: {na[k]!r} ({type(na[k]).__name__}) != {nb[k]!r} ({type(nb[k]).__name__})")
    return out


# ----------------------------------------------------------------------------------------------
# digests (value layer of the determinism proof; bitwise)
# ----------------------------------------------------------------------------------------------
def _upd(h, v):
    if isinstance(v, Outcome):
        h.update(v.kind().encode())
        if v.ok:
            _upd(h, v.value)
        return
    if isinstance(v, (list, tuple)):
        h.update(b"[")
        for x in v:
            _upd(h, x)
        h.update(b"]")
        return
    if isinstance(v, dict):
        for k in sorted(v, key=str):
            h.update(str(k).encode())
            _upd(h, v[k])
        return
    if isinstance(v, xr.Dataset):
        for k in sorted(v.data_vars, key=str):
            h.update(str(k).encode())
            _upd(h, v[k])
        return
    if isinstance(v, xr.DataArray):
        h.update(repr(tuple(v.dims)).encode())
        for d in v.dims:
            if d in v.indexes:
                h.update(repr(list(v.indexes[d][:50])).encode())
        arr = np.ascontiguousarray(np.asarray(v.values))
        if arr.dtype.kind == "O":
            h.update(repr(arr.tolist()).encode())
        else:
            h.update(str(arr.dtype).encode())
            h.update(arr.tobytes())
        return
    if isinstance(v, np.ndarray):
        h.update(np.ascontiguousarray(v).tobytes())
        return
    h.update(repr(v).encode())


def digest(v) -> str:
    h = hashlib.blake2b(digest_size=10)
    _upd(h, v)
    return h.hexdigest()
