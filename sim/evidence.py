"""Evidence files: written by every run of a check from counters the machinery kept (DESIGN 2.8)."""
from __future__ import annotations

import json
import os

from . import VERIF, seeds

COMPONENTS = {
    "real": ["xeofs (single, cross, multi, validation, preprocessing, linalg, utils.io, data_container) imported from /repo's working tree",
             "numpy, scipy, scikit-learn randomized_svd, xarray (incl. CF encode/decode), dask graph construction/optimisation and every dask task body"],
    "stub": ["dask scheduler -> sim.sched.SimScheduler (seeded choice of which task starts/completes/fails)",
             "storage medium -> sim.store.SimStore on xarray's InMemoryDataStore (zarr/netCDF4/h5netcdf are not installed)",
             "wall clock -> sim.core.SimClock (only consumer: the 'date' attribute)",
             "statsmodels -> import shim (never called)", "tqdm.trange -> range"],
}

RULES = {
    "C12": "one evaluation = one seeded simulated run: a drawn model class/configuration is fitted on in-memory data (reference, no scheduler allowed) and on the same data dask-backed with a drawn chunk layout under the simulated scheduler (drawn worker count, task order, injected task faults), then laziness/equality/schedule-independence invariants are checked. distinct = distinct (configuration cell, set of interleaving digests); non-trivial = the run executed at least one scheduler call with more than one ready task (a real scheduling choice) or issued a laziness verdict.",
    "C13": "one evaluation = one seeded history on twin models A (never serialised) and B (restarted from the simulated store at drawn points, codec drawn from direct/netcdf/zarr). distinct = distinct (class cell, operation-kind sequence incl. restart positions and codecs); non-trivial = at least one restart happened and at least one query was compared after it.",
    "C14": "one evaluation = one seeded call history on a live model object (fit/refit/transform/inverse/queries/compute/serialize/rotator.fit/bootstrapper.fit/ambient RNG+clock events/task faults) compared after every operation with a fresh model fitted once on the same arguments. distinct = distinct (class cell, operation-kind sequence, interleaving digests); non-trivial = the history contains at least one refit, rotator fit, bootstrapper fit or injected task fault and at least one compared query.",
}


def _sum_into(agg, d):
    for k, v in d.items():
        if isinstance(v, bool):
            continue
        if isinstance(v, (int, float)):
            agg[k] = max(agg.get(k, 0), v) if str(k).endswith("_max") else agg.get(k, 0) + v
        elif isinstance(v, dict):
            _sum_into(agg.setdefault(k, {}), v)


def write(prop, tier, batch_seed, results, *, search_wall, total_wall, n_violations, known_hits,
          harness_errors, workers, timeouts=()):
    os.makedirs(os.path.join(VERIF, "evidence"), exist_ok=True)
    agg: dict = {}
    cells, bigrams, states, inter, hists = {}, set(), set(), set(), set()
    distinct = set()
    n_nt = 0
    probes: dict = {}
    for r in results:
        _sum_into(agg, r.get("stats", {}))
        c = r.get("coverage", {})
        cells[c.get("cell", "?")] = cells.get(c.get("cell", "?"), 0) + 1
        bigrams.update(c.get("bigrams", []))
        states.update(c.get("states", []))
        inter.update(c.get("interleavings", []))
        for p in c.get("probes", []):
            probes[p] = probes.get(p, 0) + 1
        hists.add(c.get("history", ""))
        if r.get("nontrivial"):
            n_nt += 1
            distinct.add(seeds.digest_text(c.get("cell", "") + "|" + c.get("history", "") + "|" +
                                           ",".join(c.get("interleavings", []))))
    n = len(results)
    samples = [r["sample"] for r in sorted(results, key=lambda r: r["seed"]) if r.get("sample") and r.get("nontrivial")][:3]
    if not samples:
        samples = [r["sample"] for r in results if r.get("sample")][:1] or [{"note": "no run completed"}]
    faults = agg.pop("faults", {})
    cov = {
        "evaluations": n,
        "distinct_nontrivial": len(distinct),
        "rule": RULES[prop],
        "samples": samples,
        "nontrivial_runs": n_nt,
        "runs_per_hour": round(n / max(search_wall, 1e-9) * 3600),
        "seeds_per_hour": round(n / max(search_wall, 1e-9) * 3600),
        "workers": workers,
        "search_wall_s": round(search_wall, 1),
        "fault_kinds_fired": {k: int(v) for k, v in sorted(faults.items())},
        "operation_counters": {k: (int(v) if float(v).is_integer() else round(v, 1)) for k, v in sorted(agg.items())
                               if isinstance(v, (int, float))},
        "distinct_interleaving_digests": len(inter),
        "distinct_histories": len(hists),
        "distinct_op_bigrams": len(bigrams),
        "abstract_states_visited": len(states),
        "cells": dict(sorted(cells.items())),
        "probes": dict(sorted(probes.items())),
        "simulated_time": {"clock_span_s_total": round(agg.get("clock_span_s", 0.0), 1),
                           "clock_jumps": int(agg.get("clock_jumps", 0)),
                           "remark": "nothing in xeofs waits on the clock; it only feeds the 'date' attribute"},
        "components": COMPONENTS,
        "known_findings_matched": sorted(set(known_hits)),
        "harness_errors": len(harness_errors),
        "runs_discarded_at_wall_cap": [int(x) for x in timeouts],
        "exhaustive": False,
    }
    ev = {
        "property_id": prop, "tier": tier, "seed": int(batch_seed), "level": "exploration",
        "coverage": cov,
        "assumptions": [
            "sampling, not enumeration: a clean batch is evidence, not proof",
            "differential oracle: an error common to subject and reference routes is invisible",
            "task-atomic scheduling: no pre-emption inside a numpy/LAPACK call; overlap hazards are checked as purity/idempotence invariants",
            "the dask scheduler and the storage medium are stubs; dask.distributed, zarr, netCDF4, h5netcdf are not installed",
        ],
        "wall_s": round(total_wall, 2),
        "violations": int(n_violations),
    }
    path = os.path.join(VERIF, "evidence", f"{prop}.json")
    with open(path, "w") as f:
        json.dump(ev, f, indent=1, sort_keys=True)
    return path
