"""Swarm draws of data descriptors (layouts) - everything from the rng handed in."""
from __future__ import annotations

import copy

from . import gen

# (dimension names that collide with xeofs' own internal names - "sample", "feature" - or that are unusual but
#  legal - blanks, non-ASCII - are part of "whatever metadata the user's data carried")
_SNAMES = [("time", "datetime"), ("time", "int"), ("t", "float"), ("year", "int"), ("time", "str"),
           ("time", "datetime"), ("time", "int"), ("sample", "int"), ("my time", "int")]
_FNAMES = [("lat", "lat"), ("lon", "float"), ("x", "int"), ("y", "float"), ("loc", "str"), ("lev", "int"),
           ("lat", "lat"), ("lon", "float"), ("x", "int"), ("feature", "int"), ("grid cell", "float"), ("L\u00e4nge", "float")]


def draw_layout(rng, **kw) -> dict:
    """Redraw until the total feature count honours the budget (exact-solver regime, DESIGN 2.7)."""
    mf = kw.get("max_features", 12)
    for _ in range(400):
        d = _draw_layout(rng, **{k: v for k, v in kw.items() if k != "min_features"})
        # (fewer than three features is a degenerate family: two standardised features always give the
        #  +-45 degree EOFs, whose sign and rotation are decided by exact ties - no oracle is sound there)
        if max(3, kw.get("min_features", 3)) <= gen.n_features_total(d) <= mf:
            return d
    raise RuntimeError("could not draw a layout within the feature budget")


def _draw_layout(rng, *, max_features=12, min_samples=14, max_samples=30, allow_nan=True,
                allow_mi=True, containers=("da", "da", "ds", "list"), complex_=False,
                n_fields=None, allow_str=True, attrs=True, big=False, hetero=0.0) -> dict:
    d: dict = {"seed": rng.randrange(1, 2 ** 31)}
    container = rng.choice(containers)
    d["container"] = container
    two_s = rng.random() < 0.2
    sname, skind = rng.choice(_SNAMES)
    if not allow_str and skind == "str":
        skind = "int"
    if two_s:
        a = rng.randint(4, 6)
        b = rng.randint(3, 5)
        d["sample"] = [[sname, a, skind], ["member", b, "int"]]
    else:
        d["sample"] = [[sname, rng.randint(min_samples, max_samples), skind]]
    nf = 1 if container == "da" else (n_fields or rng.randint(1, 3))
    budget = max_features
    fields = []
    same_dims = container == "ds" and rng.random() >= hetero
    first = None
    for k in range(nf):
        share = max(2, budget // (nf - k))
        if same_dims and first is not None:
            fd = copy.deepcopy(first)
        else:
            names = rng.sample(_FNAMES, 2)
            while names[0][0] == names[1][0]:
                names = rng.sample(_FNAMES, 2)
            if rng.random() < 0.5 and share >= 4:
                a = rng.randint(2, max(2, min(4 if max_features <= 12 else 6, share // 2)))
                b = rng.randint(2, max(2, share // a))
                fd = [[names[0][0], a, names[0][1]], [names[1][0], b, names[1][1]]]
            else:
                fd = [[names[0][0], rng.randint(2, max(2, min(share, 8 if max_features <= 12 else 16))), names[0][1]]]
            fd = [[n, s, ("int" if (k_ == "str" and not allow_str) else k_)] for n, s, k_ in fd]
        if first is None:
            first = fd
        sz = 1
        for f in fd:
            sz *= f[1]
        budget = max(2, budget - sz)
        fields.append(fd)
    d["fields"] = fields
    d["names"] = rng.choice([["v0", "v1", "v2"], ["sst", "slp", "u"], ["a", "b", "c"], ["sst", "slp", "u"],
                             # names that collide with xeofs' own internal keys / attribute names
                             ["components", "scores", "norms"], ["mean_", "std_", "weights_"],
                             ["input_data", "data", "preprocessor"]])
    if container == "list" and rng.random() < 0.15 and max_features >= 12:
        # a long list: per-item bookkeeping is keyed "0".."11" in the serialised tree ("10" sorts before "2");
        # items differ in dimension name, size and coordinate kind so that a mix-up cannot go unnoticed
        k = 11                      # 11 items, 12 features in total (the feature budget)
        kinds = {"x": "int", "y": "float", "lev": "int", "loc": "str"}
        d["fields"] = []
        for i in range(k):
            nm = rng.choice(sorted(kinds))
            d["fields"].append([[nm, 2 if i == 1 else 1, kinds[nm]]])
        d["names"] = [f"item{i}" for i in range(k)]
    # steep spectra keep the mode order robust; flat ones make rotations re-rank modes (sorting bookkeeping)
    d["ratio"] = rng.choice([0.5, 0.6, 0.7, 0.9, 0.95])
    d["scale"] = rng.choice([1.0, 1.0, 10.0, 0.1])
    d["offset"] = rng.choice([0.0, 1.0, 5.0])
    d["order"] = rng.choice(["sf", "sf", "fs", "mixed"])
    if container == "list":
        # xeofs fails (in memory and lazily alike) when the items of a list hold the sample dimension at
        # different positions; that is C02/C07 territory, so lists keep the sample dims in front
        d["order"] = "sf"
    if complex_:
        d["complex"] = True
    if allow_mi and rng.random() < 0.15:
        if two_s and rng.random() < 0.6:
            d["multiindex"] = "sample"
        elif any(len(f) >= 2 for f in fields) and container != "ds":
            d["multiindex"] = "feature"
    if allow_nan and rng.random() < 0.25:
        d["nan_features"] = rng.randint(1, 2)
    if allow_nan and rng.random() < 0.15 and not two_s:
        d["nan_samples"] = rng.randint(1, 2)
    # at least three *valid* features must remain (two standardised features are the degenerate family)
    if d.get("nan_features"):
        d["nan_features"] = max(0, min(d["nan_features"], gen.n_features_total(d) - 3))
        if not d["nan_features"]:
            d.pop("nan_features")
    if attrs:
        def pick():
            # half of the draws from the hostile part of the catalogue (strings that look like literals)
            return rng.choice(gen.HOSTILE_ATTRS) if rng.random() < 0.5 else rng.randrange(len(gen.ATTR_CATALOGUE))
        if rng.random() < 0.6:
            d["attrs"] = pick()
        if rng.random() < 0.45:
            d["coord_attrs"] = pick()
        if container == "ds" and rng.random() < 0.4:
            d["ds_attrs"] = pick()
    r_ex = rng.random()
    if r_ex < 0.15 and container == "da":
        d["extra_coord"] = rng.choice([True, "both"])
    elif r_ex < 0.15 and container == "list" and not two_s:
        d["extra_coord"] = "sample_src"
    if rng.random() < 0.15 and not two_s:
        d["perm_seed"] = rng.randrange(1, 1000)
    return d


def draw_chunks(rng, tiny=False):
    mode = rng.choice(["single", "sample", "feature", "both", "allfeat", "irregular", "all"] + (["elem"] if tiny else []))
    ch = {"mode": mode, "n": rng.randint(2, 4)}
    if mode == "irregular":
        ch["iseed"] = rng.randrange(1, 10 ** 6)
        ch["ifeat"] = rng.random() < 0.6
    if rng.random() < 0.25:
        # list items / Dataset variables with layouts of their own; "memory" = that item is not dask-backed at all
        ch["items"] = [rng.choice(["memory", None, None, "single", "sample", "feature"]) for _ in range(3)]
    return ch


def same_structure(rng, d: dict, *, n_samples=None) -> dict:
    """Other values (and possibly another sample count), same layout."""
    return gen.derive_new(d, rng.randrange(1, 2 ** 31), n_samples, d.get("start", 0), d.get("chunks"))


def new_for(rng, d: dict, kind: str) -> dict:
    """Compatible unseen data for transform: disjoint / overlapping / repeated-size samples."""
    n0 = d["sample"][0][1]
    if kind == "disjoint":
        n, start = rng.randint(3, 8), n0 + 5
    elif kind == "overlap":
        n, start = rng.randint(3, 8), max(0, n0 - 3)
    elif kind == "one":
        n, start = 1, n0 + 1
    else:
        n, start = n0, 0
    nd = gen.derive_new(d, rng.randrange(1, 2 ** 31), n, start, d.get("chunks"))
    nd["nan_samples"] = 0
    nd.pop("perm_seed", None)
    return nd


def paired_layout(rng, dx: dict, **kw) -> dict:
    """Second field of a cross-set pair: same sample dims/coords, own features."""
    dy = draw_layout(rng, **kw)
    dy["sample"] = copy.deepcopy(dx["sample"])
    for k in ("multiindex", "mi_name", "perm_seed", "nan_samples", "start"):
        if k in dx:
            dy[k] = copy.deepcopy(dx[k])
        else:
            dy.pop(k, None)
    if dy.get("multiindex") == "feature" and not any(len(f) >= 2 for f in dy["fields"]):
        dy.pop("multiindex")
    if dx.get("multiindex") == "feature":
        dy.pop("multiindex", None)
        if any(len(f) >= 2 for f in dy["fields"]) and dy["container"] != "ds" and rng.random() < 0.5:
            dy["multiindex"] = "feature"
    return dy
