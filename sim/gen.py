"""Data descriptors -> xarray objects (DESIGN 2.1: data are never stored, only described).

A descriptor is a plain JSON object; ``build(desc)`` is a pure function of it. The same
descriptor always yields bit-identical, *freshly allocated* objects, which is what lets the
reference model of C14 be fitted on "the same arguments" without sharing memory with the live
model, and what makes replay files self-contained.

Matrix model: for S samples and F features (all fields concatenated)
    M = scale * (U diag(s) V^T) + offset[f]
with U (S x r) orthonormal and orthogonal to the constant vector (so centring does not disturb the
prescribed spectrum), V (F x r) orthonormal, s geometric with the given ratio.
"""
from __future__ import annotations

import copy
from typing import Any

import numpy as np
import pandas as pd
import xarray as xr

# ----------------------------------------------------------------------------------------------
# attribute catalogue (C13: "whatever metadata the user's data carried")
# ----------------------------------------------------------------------------------------------
ATTR_CATALOGUE: list[dict[str, Any]] = [
    {},
    {"units": "K", "long_name": "sea surface temperature"},
    {"units": ""},
    {"units": " "},
    {"units": "[m/s]"},
    {"note": "{a}"},
    {"note": "None"},
    {"flag": "True"},
    {"levels": "[1, 2]"},
    {"meta": "{'a': 1}"},
    {"valid_range": [0.0, 1.0]},
    {"n": 3, "x": 2.5},
    {"comment": "[unclosed"},
    {"comment": "}{"},
    {"history": "2020-01-01: created\nline two"},
    {"scale": np.float32(1.5), "count": np.int64(7)},
    {"name_like": "[", "other": "{"},
    {"t": (1, 2)},
    {"b": True},
    {"missing": "False"},
    {"e": "[]", "d": "{}"},
    {"expr": "[__import__('os')]"},
]
ATTR_CATALOGUE += [
    {"classes": "['land', 'ocean']"},
    {"index": "[Hansen's index]"},
    {"grid": "'grid_x'"},
    {"q": '"quoted"'},
    {"mixed": "{'a': \"b\"}"},
    {"nested": [[1, 2], [3, 4]]},
    {"tup": ("a", "b")},
    {"none_like": "none", "true_like": "true"},
    {"multi": "True", "other": "[0, 100]", "third": "None"},
]
# indices of the entries whose string values look like Python literals / sanitised values
HOSTILE_ATTRS = [i for i, a in enumerate(ATTR_CATALOGUE)
                 if any(isinstance(v, str) and (v[:1] in "[{'\"" or v in ("None", "True", "False", "")) for v in a.values())]
# entries whose *values* the netCDF layer itself would refuse are not listed (None, dict): xarray
# raises on them before xeofs' codec is involved; tuples/bools are what xeofs says it handles.


def attrs_for(idx: int | None) -> dict[str, Any]:
    if idx is None:
        return {}
    return copy.deepcopy(ATTR_CATALOGUE[idx % len(ATTR_CATALOGUE)])


# ----------------------------------------------------------------------------------------------
# coordinates
# ----------------------------------------------------------------------------------------------
def make_coord(kind: str, n: int, start: int = 0, perm_seed: int | None = None):
    if kind == "int":
        c = np.arange(start, start + n)
    elif kind == "float":
        c = 0.5 + 1.25 * np.arange(start, start + n, dtype=float)
    elif kind == "lat":
        c = np.linspace(-75.0, 75.0, n) if n > 1 else np.array([10.0])
    elif kind == "datetime":
        c = np.datetime64("2000-01-01", "ns") + np.arange(start, start + n) * np.timedelta64(1, "D")
    elif kind == "str":
        c = np.array([f"k{start + i:03d}" for i in range(n)], dtype=object)
    else:
        raise ValueError(f"unknown coordinate kind {kind}")
    if perm_seed is not None:
        c = c[np.random.default_rng(perm_seed).permutation(n)]
    return c


# ----------------------------------------------------------------------------------------------
# matrices
# ----------------------------------------------------------------------------------------------
def make_matrix(seed: int, S: int, F: int, ratio: float, scale: float, offset: float,
                complex_: bool = False, noise: float = 1e-3) -> np.ndarray:
    rng = np.random.default_rng(seed)
    r = max(1, min(S - 1, F))
    A = rng.standard_normal((S, r))
    A = A - A.mean(axis=0, keepdims=True)
    U, _ = np.linalg.qr(A)
    B = rng.standard_normal((F, r))
    V, _ = np.linalg.qr(B)
    s = 10.0 * ratio ** np.arange(r)
    M = scale * (U * s) @ V.T
    # small full-rank noise floor so that nothing is exactly singular
    if noise:
        M = M + scale * noise * rng.standard_normal((S, F))
    M = M + offset * (1.0 + 0.1 * rng.standard_normal(F))[None, :]
    if complex_:
        M2 = make_matrix(seed + 7919, S, F, ratio, scale, 0.0, False, noise)
        M = M + 1j * M2
    return M


# ----------------------------------------------------------------------------------------------
# fields
# ----------------------------------------------------------------------------------------------
def _dims_sizes(dims):
    return [d[0] for d in dims], [int(d[1]) for d in dims]


def build(desc: dict) -> Any:
    """Return a DataArray, a Dataset or a list of DataArrays as the descriptor says."""
    sdims = desc["sample"]
    fields = desc["fields"]                  # list of feature-dim lists, one per variable / item
    container = desc.get("container", "da")
    if container == "da":
        fields = fields[:1]
    snames, ssizes = _dims_sizes(sdims)
    S = int(np.prod(ssizes))
    Fs = [int(np.prod(_dims_sizes(f)[1])) for f in fields]
    M = make_matrix(desc["seed"], S, int(sum(Fs)), desc.get("ratio", 0.6), desc.get("scale", 1.0),
                    desc.get("offset", 1.0), desc.get("complex", False), desc.get("noise", 1e-3))
    start = desc.get("start", 0)
    perm = desc.get("perm_seed")
    out = []
    col = 0
    for k, fd in enumerate(fields):
        fnames, fsizes = _dims_sizes(fd)
        block = M[:, col:col + Fs[k]]
        col += Fs[k]
        arr = block.reshape(*ssizes, *fsizes)
        coords = {}
        for (n, sz, kind) in sdims:
            coords[n] = make_coord(kind, sz, start, perm)
        for (n, sz, kind) in fd:
            coords[n] = make_coord(kind, sz, 0, None)
        da = xr.DataArray(arr, dims=[*snames, *fnames], coords=coords)
        # all-NaN features / samples (field 0 only; deterministic positions)
        if k == 0:
            nf = desc.get("nan_features", 0)
            if nf:
                flat = np.random.default_rng(desc["seed"] + 1).choice(Fs[0], size=min(nf, Fs[0] - 2), replace=False)
                a2 = da.values.reshape(S, Fs[0]).copy()
                a2[:, flat] = np.nan
                da = da.copy(data=a2.reshape(da.shape))
        ns = desc.get("nan_samples", 0)
        if ns:
            flat = np.random.default_rng(desc["seed"] + 2).choice(S, size=min(ns, S - 4), replace=False)
            a2 = da.values.reshape(S, Fs[k]).copy()
            a2[flat, :] = np.nan
            da = da.copy(data=a2.reshape(da.shape))
        if desc.get("nan_sample_new") and S >= 2:
            # unseen data with one entirely missing sample (every field): transform drops it
            a2 = da.values.reshape(S, Fs[k]).copy()
            a2[(desc["seed"] + 1) % S, :] = np.nan
            da = da.copy(data=a2.reshape(da.shape))
        order = desc.get("order", "sf")
        if order == "fs":
            da = da.transpose(*fnames, *snames)
        elif order == "rev":
            da = da.transpose(*reversed(da.dims))       # also permutes the feature (and sample) dims among themselves
        elif order == "mixed" and len(da.dims) >= 3:
            d = list(da.dims)
            d = d[1:] + d[:1]
            da = da.transpose(*d)
        extra = desc.get("extra_coord")
        if extra == "sample_src":
            # list items that each carry the same-named, equal-valued auxiliary coordinate along the sample dim
            # (e.g. season(time) read with every file); dask-backed per item once the item is chunked (see below)
            da = da.assign_coords({f"aux_{snames[0]}".replace(" ", "_"): (snames[0], np.arange(ssizes[0]) % 4)})
        elif extra:
            # a non-index coordinate along the first feature dim ...
            # (the *name* of a non-index coordinate carries no blank: CF lists such coordinates blank-separated in
            #  the "coordinates" attribute, so xarray itself cannot round-trip one through any store)
            da = da.assign_coords({f"aux_{fnames[0]}".replace(" ", "_"): (fnames[0], np.arange(fsizes[0]) * 2.0)})
            if extra == "both":
                # ... and one along the first sample dim (e.g. season(time))
                da = da.assign_coords({f"aux_{snames[0]}".replace(" ", "_"): (snames[0], np.arange(ssizes[0]) % 4)})
        da.name = (desc.get("names") or ["v0", "v1", "v2", "v3"])[k]
        out.append(da)

    mi = desc.get("multiindex")
    if mi == "sample" and len(snames) >= 2:
        out = [o.stack({desc.get("mi_name", "smi"): snames}) for o in out]
    elif mi == "feature":
        new = []
        for o, fd in zip(out, fields):
            fn = _dims_sizes(fd)[0]
            if len(fn) >= 2:
                o = o.stack({desc.get("mi_fname", "fmi"): fn})
            new.append(o)
        out = new

    attrs = attrs_for(desc.get("attrs"))
    cattrs = attrs_for(desc.get("coord_attrs"))
    for o in out:
        o.attrs = copy.deepcopy(attrs)
        if cattrs:
            for c in o.coords:
                # (a datetime coordinate that carries e.g. a 'units' attribute cannot be CF-encoded by
                #  xarray at all - not even by the user's own ds.to_netcdf() - so it is not generated)
                if c in o.dims and not isinstance(o.indexes.get(c), pd.MultiIndex) \
                        and o[c].dtype.kind != "M":
                    o[c].attrs = copy.deepcopy(cattrs)

    ch = desc.get("chunks")
    if ch is not None:
        items = ch.get("items")
        if items and len(out) >= 2 and not all(items[k % len(items)] == "memory" for k in range(len(out))):
            # per-item layouts: list items / Dataset variables may be chunked differently, and some may be held
            # in memory next to dask-backed ones (a *mixed* input is still a dask-backed input)
            out = [o if items[k % len(items)] == "memory"
                   else _chunk(o, dict(ch, mode=items[k % len(items)] or ch.get("mode", "single")), sample_dims(desc), k)
                   for k, o in enumerate(out)]
        else:
            out = [_chunk(o, ch, sample_dims(desc), k) for k, o in enumerate(out)]
        if desc.get("extra_coord") == "sample_src":
            # every item's auxiliary coordinate comes from its own source (own graph keys, as from separate files):
            # whether two of them are equal cannot be told from the graphs
            new = []
            for k, o in enumerate(out):
                an = f"aux_{snames[0]}".replace(" ", "_")
                if an in o.coords and o.coords[an].chunks is not None:
                    c = o.coords[an]
                    o = o.assign_coords({an: (c.dims, c.data.map_blocks(_ident, dtype=c.dtype, token=f"auxsrc-{desc['seed']}-{k}"))})
                new.append(o)
            out = new

    if container == "da":
        return out[0]
    if container == "list":
        return out
    if container == "ds":
        if desc.get("var_order") == "rev":
            out = out[::-1]          # the same variables, assembled in another order
        ds = xr.Dataset({o.name: o for o in out})
        ds.attrs = attrs_for(desc.get("ds_attrs"))
        return ds
    raise ValueError(container)


def sample_dims(desc: dict):
    """The ``dim`` argument of fit for this descriptor."""
    if desc.get("multiindex") == "sample" and len(desc["sample"]) >= 2:
        return desc.get("mi_name", "smi")
    names = [d[0] for d in desc["sample"]]
    return names[0] if len(names) == 1 else tuple(names)


def _irregular(size: int, n: int, rs) -> tuple:
    """A seeded composition of ``size`` into at most ``n`` parts of unequal sizes (each >= 1)."""
    n = max(1, min(n, size))
    if n == 1:
        return (size,)
    cuts = sorted(rs.choice(np.arange(1, size), size=n - 1, replace=False).tolist())
    edges = [0] + cuts + [size]
    return tuple(int(b - a) for a, b in zip(edges[:-1], edges[1:]))


def _chunk(da: xr.DataArray, ch: dict, sdim, k: int = 0) -> xr.DataArray:
    mode = ch.get("mode", "single")
    n = int(ch.get("n", 2))
    sd = [sdim] if isinstance(sdim, str) else list(sdim)
    fd = [d for d in da.dims if d not in sd]
    spec: dict[str, int] = {d: -1 for d in da.dims}

    def parts(dim):
        size = da.sizes[dim]
        return max(1, -(-size // n))

    if mode in ("sample", "both"):
        spec[sd[0]] = parts(sd[0])
    if mode in ("feature", "both"):
        spec[fd[0]] = parts(fd[0])
    if mode == "elem":
        spec = {d: 1 for d in da.dims}
    if mode == "allfeat":
        for d in fd:
            spec[d] = parts(d)
    if mode == "all":
        for d in da.dims:
            spec[d] = parts(d)
    if mode == "irregular":
        # blocks of unequal sizes along the (first) sample dim and the first feature dim
        rs = np.random.default_rng(int(ch.get("iseed", 0)) + 17 * k)
        spec[sd[0]] = _irregular(da.sizes[sd[0]], n + 1, rs)
        if ch.get("ifeat", True):
            spec[fd[0]] = _irregular(da.sizes[fd[0]], n, rs)
    out = da.chunk(spec)
    # the blocks come out of a *loader task* (as they would from a file): whether a graph still reaches back
    # to the user's source is then observable by counting loader executions (C12 L2)
    return out.copy(data=out.data.map_blocks(_loader, dtype=out.dtype))


LOADS = [0]


def _ident(block):
    return block


def _loader(block):
    LOADS[0] += 1
    return block


def build_weights(desc: dict, wdesc: dict) -> Any:
    """Positive weights with the feature dims of each field, same container kind as the data."""
    fields = desc["fields"]
    container = desc.get("container", "da")
    if container == "da":
        fields = fields[:1]
    out = []
    names = desc.get("names") or ["v0", "v1", "v2", "v3"]
    for k, fd in enumerate(fields):
        fnames, fsizes = _dims_sizes(fd)
        rng = np.random.default_rng(wdesc["seed"] + k)
        w = 0.5 + rng.random(fsizes)
        coords = {n: make_coord(kind, sz, 0, None) for (n, sz, kind) in fd}
        # users commonly derive weights from a coordinate (np.sqrt(np.cos(np.deg2rad(X.lat)))), which leaves
        # the weights *named after that coordinate*; or they carry no name at all
        wname = {"coord": fnames[0], "none": None}.get(wdesc.get("name_kind", "var"), names[k])
        if container == "ds":
            wname = names[k]         # a weights Dataset needs the variable names of the data
        da = xr.DataArray(w, dims=fnames, coords=coords, name=wname)
        if desc.get("multiindex") == "feature" and len(fnames) >= 2:
            da = da.stack({desc.get("mi_fname", "fmi"): fnames})
        if wdesc.get("dim_order") == "rev" and da.ndim >= 2:
            da = da.transpose(*reversed(da.dims))    # weights are matched by dimension name, not position
        out.append(da)
    if wdesc.get("chunked"):
        out = [o.chunk() for o in out]          # the weights themselves are dask-backed
    if container == "da":
        return out[0]
    if container == "list":
        return out
    return xr.Dataset({o.name: o for o in out})


def derive_new(desc: dict, seed: int, n_samples: int | None, start: int, chunks=None) -> dict:
    """Descriptor of a *compatible* new data set: same feature layout, other samples."""
    d = copy.deepcopy(desc)
    d["seed"] = int(seed)
    d["start"] = int(start)
    d["nan_samples"] = 0
    if n_samples is not None:
        s0 = list(d["sample"][0])
        s0[1] = int(n_samples)
        d["sample"][0] = s0
    d["chunks"] = chunks
    return d


def n_features_total(desc: dict) -> int:
    fields = desc["fields"] if desc.get("container", "da") != "da" else desc["fields"][:1]
    return int(sum(np.prod([d[1] for d in f]) for f in fields))


def n_samples_total(desc: dict) -> int:
    return int(np.prod([d[1] for d in desc["sample"]]))


# ----------------------------------------------------------------------------------------------
# snapshots of user inputs (C14 H3)
# ----------------------------------------------------------------------------------------------
def snapshot(obj):
    if isinstance(obj, (list, tuple)):
        return [snapshot(o) for o in obj]
    if obj is None:
        return None
    return obj.copy(deep=True)


def identical(a, b) -> str | None:
    """None if the user object ``a`` is unchanged w.r.t. snapshot ``b``; else a description."""
    if isinstance(a, (list, tuple)):
        if len(a) != len(b):
            return "list length changed"
        for i, (x, y) in enumerate(zip(a, b)):
            r = identical(x, y)
            if r:
                return f"item {i}: {r}"
        return None
    if a is None and b is None:
        return None
    if type(a) is not type(b):
        return f"type changed {type(b).__name__}->{type(a).__name__}"
    if isinstance(a, xr.DataArray):
        if a.name != b.name:
            return f"name changed {b.name!r}->{a.name!r}"
        if a.dims != b.dims:
            return f"dims changed {b.dims}->{a.dims}"
        if (a.chunks is None) != (b.chunks is None) or a.chunks != b.chunks:
            return f"chunks changed {b.chunks}->{a.chunks}"
    if isinstance(a, xr.Dataset):
        if list(a.data_vars) != list(b.data_vars):
            return "data_vars changed"
        for v in a.data_vars:
            if a[v].chunks != b[v].chunks:
                return f"chunks of {v} changed"
            if not _attrs_equal(a[v].attrs, b[v].attrs):
                return f"attrs of {v} changed"
    try:
        same = a.identical(b)
    except Exception as e:  # pragma: no cover
        return f"identical() raised {type(e).__name__}"
    if not same:
        if not a.equals(b):
            return "values/coords changed"
        return "attrs/name changed"
    return None


def _attrs_equal(x, y):
    try:
        return xr.core.utils.dict_equiv(x, y)
    except Exception:
        return x == y


def sanitize_descs(descs: dict) -> None:
    """Last step of every generator: at least three *valid* (not all-NaN) features per data set. Two
    standardised features are the degenerate +-45 degree family (signs and rotations decided by exact ties)."""
    for d in descs.values():
        if d.get("kind") == "weights" or "fields" not in d:
            continue
        if n_features_total(d) < 3:
            # (a generator step that turned a Dataset/list into its first variable may leave two features)
            d["fields"][0][0][1] = int(d["fields"][0][0][1]) + 3 - n_features_total(d) if len(d["fields"][0]) == 1 else 3
        if not d.get("nan_features"):
            continue
        fields = d["fields"] if d.get("container", "da") != "da" else d["fields"][:1]
        f0 = int(np.prod([x[1] for x in fields[0]]))
        keep = min(int(d["nan_features"]), max(0, f0 - 2), max(0, n_features_total(d) - 3))
        if keep > 0:
            d["nan_features"] = keep
        else:
            d.pop("nan_features")
