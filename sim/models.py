"""Catalogue of xeofs model classes: constructor spaces, how to fit, and what can be observed.

Everything here describes *how to drive the public API*; no numerical expectation is encoded.
Queries are JSON descriptors executed by ``run_query`` against a live object, so that the same
query can be put to a subject and to its reference and stored in a replay file.
"""
from __future__ import annotations

import copy
import importlib
from dataclasses import dataclass, field
from typing import Any

import numpy as np
import xarray as xr

from . import gen


def get_class(path: str):
    mod, name = path.rsplit(".", 1)
    return getattr(importlib.import_module(mod), name)


@dataclass
class Spec:
    name: str
    path: str
    family: str                      # single | cross | multi
    rotator: str | None = None       # path of the rotator class
    dask_ok: bool = True
    complex_input: bool = False      # needs complex data
    hilbert: bool = False
    has_transform: bool = True
    has_inverse: bool = True
    has_predict: bool = False
    time_ordered: bool = False
    fixed_alpha: Any = None
    calls: list[tuple[str, dict]] = field(default_factory=list)          # data-free accessors
    calls_input: list[tuple[str, dict]] = field(default_factory=list)    # accessors that need input data

    def cls(self):
        return get_class(self.path)

    def rot_cls(self):
        return get_class(self.rotator) if self.rotator else None


_EOF_CALLS = [("components", {}), ("components", {"normalized": False}), ("scores", {}),
              ("scores", {"normalized": True}), ("singular_values", {}), ("explained_variance", {}),
              ("explained_variance_ratio", {})]
_CPLX_CALLS = [("components_amplitude", {}), ("components_phase", {}), ("scores_amplitude", {}),
               ("scores_phase", {})]
_CROSS_CALLS = [("components", {}), ("components", {"normalized": False}), ("scores", {}),
                ("scores", {"normalized": True}), ("cross_correlation_coefficients", {}),
                ("correlation_coefficients_X", {}), ("correlation_coefficients_Y", {})]
_CROSS_INPUT = [("squared_covariance_fraction", {}), ("fraction_variance_X_explained_by_X", {}),
                ("fraction_variance_Y_explained_by_Y", {}), ("fraction_variance_Y_explained_by_X", {}),
                ("homogeneous_patterns", {}), ("heterogeneous_patterns", {})]

SPECS: dict[str, Spec] = {}


def _add(s: Spec):
    SPECS[s.name] = s


_add(Spec("EOF", "xeofs.single.EOF", "single", rotator="xeofs.single.EOFRotator", calls=_EOF_CALLS))
_add(Spec("ComplexEOF", "xeofs.single.ComplexEOF", "single", rotator="xeofs.single.ComplexEOFRotator",
          dask_ok=False, complex_input=True, calls=_EOF_CALLS + _CPLX_CALLS))
_add(Spec("HilbertEOF", "xeofs.single.HilbertEOF", "single", rotator="xeofs.single.HilbertEOFRotator",
          dask_ok=False, hilbert=True, has_transform=False, time_ordered=True,
          calls=_EOF_CALLS + _CPLX_CALLS))
_add(Spec("ExtendedEOF", "xeofs.single.ExtendedEOF", "single", has_transform=False, time_ordered=True,
          calls=[("components", {}), ("scores", {}), ("singular_values", {}), ("explained_variance", {}),
                 ("explained_variance_ratio", {})]))
_add(Spec("OPA", "xeofs.single.OPA", "single", has_transform=False, has_inverse=False, time_ordered=True,
          calls=[("components", {}), ("scores", {}), ("decorrelation_time", {}), ("filter_patterns", {})]))
_add(Spec("POP", "xeofs.single.POP", "single", time_ordered=True,
          calls=[("components", {}), ("scores", {}), ("scores", {"normalized": True}), ("eigenvalues", {}),
                 ("damping_times", {}), ("periods", {})] + _CPLX_CALLS))
_add(Spec("SparsePCA", "xeofs.single.SparsePCA", "single",
          calls=[("components", {}), ("scores", {}), ("scores", {"normalized": True}),
                 ("explained_variance", {}), ("explained_variance_ratio", {})]))
for _n, _a in (("CPCCA", None), ("MCA", 1.0), ("CCA", 0.0), ("RDA", [0.0, 1.0])):
    _add(Spec(_n, f"xeofs.cross.{_n}", "cross",
              rotator="xeofs.cross.MCARotator" if _n == "MCA" else "xeofs.cross.CPCCARotator",
              has_predict=True, fixed_alpha=_a,
              calls=_CROSS_CALLS + ([("covariance_fraction_CD95", {})] if _n == "MCA" else []),
              calls_input=_CROSS_INPUT))
_add(Spec("ComplexMCA", "xeofs.cross.ComplexMCA", "cross", rotator="xeofs.cross.ComplexMCARotator",
          dask_ok=False, complex_input=True, has_predict=True, fixed_alpha=1.0,
          calls=_CROSS_CALLS + _CPLX_CALLS + [("covariance_fraction_CD95", {})], calls_input=_CROSS_INPUT))
_add(Spec("ComplexCPCCA", "xeofs.cross.ComplexCPCCA", "cross", rotator="xeofs.cross.ComplexCPCCARotator",
          dask_ok=False, complex_input=True, has_predict=True,
          calls=_CROSS_CALLS + _CPLX_CALLS, calls_input=_CROSS_INPUT))
_add(Spec("HilbertMCA", "xeofs.cross.HilbertMCA", "cross", rotator="xeofs.cross.HilbertMCARotator",
          dask_ok=False, hilbert=True, has_transform=False, has_predict=False, time_ordered=True,
          fixed_alpha=1.0, calls=_CROSS_CALLS + _CPLX_CALLS + [("covariance_fraction_CD95", {})], calls_input=_CROSS_INPUT))
_add(Spec("HilbertCPCCA", "xeofs.cross.HilbertCPCCA", "cross", rotator="xeofs.cross.HilbertCPCCARotator",
          dask_ok=False, hilbert=True, has_transform=False, has_predict=False, time_ordered=True,
          calls=_CROSS_CALLS + _CPLX_CALLS, calls_input=_CROSS_INPUT))
_add(Spec("MultiCCA", "xeofs.multi.CCA", "multi", dask_ok=False, has_inverse=False,
          calls=[("components", {}), ("components", {"normalize": False}), ("scores", {}), ("weights", {}),
                 ("explained_variance", {}), ("explained_variance_ratio", {}),
                 ("explained_covariance", {}), ("explained_covariance_ratio", {})]))

SERIALISABLE = [n for n, s in SPECS.items() if s.family != "multi"]


# ----------------------------------------------------------------------------------------------
# parameter spaces (drawn per run; all draws from the rng that is handed in)
# ----------------------------------------------------------------------------------------------
def _rank(desc):
    return min(gen.n_samples_total(desc) - 1 - desc.get("nan_samples", 0),
               gen.n_features_total(desc) - desc.get("nan_features", 0))


def _has_lat(desc):
    fields = desc["fields"] if desc.get("container", "da") != "da" else desc["fields"][:1]
    return all(sum(1 for d in f if d[0] in ("lat", "latitude")) == 1 for f in fields) \
        and desc.get("multiindex") != "feature"


def draw_single_params(rng, spec: Spec, desc: dict, *, lazy: bool | None = None, small_iter=True) -> dict:
    r = max(2, _rank(desc))
    p: dict[str, Any] = {}
    p["n_modes"] = rng.randint(2, max(2, min(5, r)))
    p["standardize"] = rng.random() < 0.3
    p["use_coslat"] = _has_lat(desc) and rng.random() < 0.4
    p["check_nans"] = True if (desc.get("nan_features") or desc.get("nan_samples")) else rng.random() < 0.6
    if rng.random() < 0.25:
        p["sample_name"], p["feature_name"] = rng.choice([("smp", "ftr"), ("S", "F"), ("sample_", "feature_")])
    p["compute"] = rng.random() < 0.7
    if lazy is True:
        p["compute"] = False
        p["check_nans"] = False
    elif lazy is False:
        p["compute"] = True
    p["random_state"] = rng.choice([0, 1, 7, 42, 12345])
    p["solver"] = rng.choice(["auto", "auto", "full", "randomized"])
    if spec.name not in ("OPA",):
        p["center"] = rng.random() < 0.85
    if spec.name == "ExtendedEOF":
        p["tau"] = rng.randint(1, 2)
        p["embedding"] = rng.randint(2, 3)     # embedding=1 yields an empty matrix (slice(None, -0)): C10 territory
        S = gen.n_samples_total(desc) - (p["embedding"] - 1) * p["tau"]
        p["n_pca_modes"] = rng.choice([None, None, min(4, r)])
        F = (p["n_pca_modes"] or gen.n_features_total(desc)) * p["embedding"]
        p["n_modes"] = max(1, min(p["n_modes"], S - 1, F))
        # ExtendedEOF hard-codes the dimension name "sample" (X.shift(sample=...))
        p.pop("sample_name", None)
        p.pop("feature_name", None)
    if spec.name == "OPA":
        p["center"] = True
        p["n_pca_modes"] = rng.randint(2, max(2, min(5, r)))
        p["n_modes"] = rng.randint(1, p["n_pca_modes"])
        p["tau_max"] = rng.randint(1, 4)
        p.pop("sample_name", None)       # OPA hard-codes "sample" in np.linalg.norm core dims
        p.pop("feature_name", None)
    if spec.name == "POP":
        p["use_pca"] = rng.random() < 0.7
        if p["use_pca"]:
            # (a fractional mode count needs the spectrum: documented ValueError for dask input)
            p["n_pca_modes"] = rng.choice([2, 3, min(4, r), 0.9] if lazy is None else [2, 3, min(4, r), 3])
            p["pca_init_rank_reduction"] = 1.0
        if not p["use_pca"] and gen.n_features_total(desc) >= gen.n_samples_total(desc) - 1:
            p["use_pca"] = True
            p["n_pca_modes"] = 3
    if spec.name == "SparsePCA":
        p["alpha"] = rng.choice([1e-3, 1e-2, 0.0])
        p["beta"] = rng.choice([1e-3, 1e-4])
        p["max_iter"] = rng.randint(2, 5) if lazy is not None else (rng.randint(3, 12) if small_iter else 100)
        p["tol"] = 1e-9
        p["robust"] = False
        p["regularizer"] = rng.choice(["l1", "l1", "l0"])
    if spec.hilbert:
        p["padding"] = rng.choice(["exp", None])
        p["decay_factor"] = rng.choice([0.2, 0.1])
    if rng.random() < 0.1:
        p["solver_kwargs"] = {}
    if lazy is None and spec.name in ("EOF", "ExtendedEOF", "OPA") and rng.random() < 0.3:
        # hardly any oversampling: the randomised solver is then visibly seed-dependent even on small data, so
        # that the *handling of seeds* shows (same seed, same backend on both sides: still deterministic)
        p["solver"] = "randomized"
        p["solver_kwargs"] = {"n_oversamples": rng.choice([0, 1, 2])}
    if lazy is None and spec.name == "SparsePCA" and rng.random() < 0.5:
        p["solver"] = "randomized"
        p["oversample"] = rng.choice([0, 1, 2])
    return p


def draw_cross_params(rng, spec: Spec, dx: dict, dy: dict, *, lazy: bool | None = None) -> dict:
    p: dict[str, Any] = {}
    rx, ry = max(2, _rank(dx)), max(2, _rank(dy))
    S = gen.n_samples_total(dx)
    use_pca = rng.choice([True, False, [True, False], [False, True], True])
    p["use_pca"] = use_pca
    up = use_pca if isinstance(use_pca, list) else [use_pca, use_pca]
    npm = []
    eff = []
    for u, r, d in zip(up, (rx, ry), (dx, dy)):
        if u:
            k = rng.choice(["all", min(3, r), min(4, r), 0.95])
            npm.append(k)
            eff.append(r if k in ("all", 0.95) else k)
        else:
            npm.append("all")
            eff.append(gen.n_features_total(d))
    p["n_pca_modes"] = npm if rng.random() < 0.5 or npm[0] != npm[1] else npm[0]
    p["pca_init_rank_reduction"] = 1.0
    if spec.fixed_alpha is None:
        a = rng.choice([0.0, 0.3, 0.5, 1.0, [0.2, 1.0], [1.0, 0.0]])
        p["alpha"] = a
    p["n_modes"] = rng.randint(2, max(2, min(4, eff[0], eff[1], 2 if min(eff) < 3 else 4)))
    p["n_modes"] = min(p["n_modes"], eff[0], eff[1])
    if spec.complex_input or spec.hilbert:
        # scipy's iterative complex SVD needs k < min(shape) of the cross-covariance matrix
        p["n_modes"] = max(1, min(p["n_modes"], min(eff) - 1))
    p["standardize"] = rng.choice([False, False, True, [True, False]])
    p["use_coslat"] = [(_has_lat(dx) and rng.random() < 0.3), (_has_lat(dy) and rng.random() < 0.3)]
    nan = any(d.get("nan_features") or d.get("nan_samples") for d in (dx, dy))
    p["check_nans"] = True if nan else rng.random() < 0.6
    p["compute"] = rng.random() < 0.7
    if lazy is True:
        p["compute"] = False
        p["check_nans"] = False
    elif lazy is False:
        p["compute"] = True
    p["random_state"] = rng.choice([0, 3, 11, 2024])
    p["solver"] = rng.choice(["auto", "auto", "full", "randomized"])
    if rng.random() < 0.2:
        p["sample_name"] = "smp"
        p["feature_name"] = rng.choice(["ftr", ["fa", "fb"]])
    return p


def draw_multi_params(rng, descs: list[dict]) -> dict:
    r = min(max(2, _rank(d)) for d in descs)
    p = {"n_modes": rng.randint(2, min(3, r)), "pca": rng.random() < 0.4,
         "check_nans": True, "eps": 1e-6}
    if p["pca"]:
        # the PCA pre-reduction may keep as few as two modes per view; canonical modes beyond the smallest
        # reduced view are not defined by the data (degenerate eigen-directions), so ask for two
        p["n_modes"] = 2
        p["init_pca_modes"] = rng.choice([0.75, 0.9, 1.0])
        p["variance_fraction"] = rng.choice([0.99, 0.9])
    if rng.random() < 0.3:
        p["c"] = rng.choice([0.0, 0.1, 0.5])
    return p


def draw_rotator_params(rng, model_params: dict, *, lazy: bool | None = None) -> dict:
    nm = int(model_params["n_modes"])
    # rotating all retained modes is both the common use and what makes the rotation re-rank modes
    p = {"n_modes": max(2, nm) if rng.random() < 0.6 else rng.randint(2, max(2, nm)), "power": rng.choice([1, 1, 2, 3])}
    compute = rng.random() < 0.7
    if lazy is True:
        compute = False
    elif lazy is False:
        compute = True
    p["compute"] = compute
    p["max_iter"] = rng.choice([1000, 300, 300]) if compute else rng.randint(3, 7)
    p["rtol"] = 1e-8
    return p


# ----------------------------------------------------------------------------------------------
# executing queries
# ----------------------------------------------------------------------------------------------
class Env:
    """Maps data ids of a run to (lazily built, then kept) user objects."""

    def __init__(self, descs: dict[str, dict]):
        self.descs = descs
        self.objs: dict[str, Any] = {}
        self.snaps: dict[str, Any] = {}

    def get(self, did: str | None):
        if did is None:
            return None
        if did not in self.objs:
            d = self.descs[did]
            if d.get("kind") == "weights":
                obj = gen.build_weights(self.descs[d["of"]], d)
            else:
                obj = gen.build(d)
            self.objs[did] = obj
            self.snaps[did] = gen.snapshot(obj)
        return self.objs[did]

    def check_untouched(self) -> list[str]:
        bad = []
        for did in sorted(self.objs):
            r = gen.identical(self.objs[did], self.snaps[did])
            if r:
                bad.append(f"{did}: {r}")
        return bad

    def dim(self, did: str):
        return gen.sample_dims(self.descs[did])


def fit_model(spec: Spec, model, fit: dict, env: Env, via: str | None = None):
    """fit = {"X": id, "Y": id?, "views": [ids]?, "w": id?, "wY": id?}"""
    if spec.family == "single":
        if via == "fit_transform":
            return model.fit_transform(env.get(fit["X"]), env.dim(fit["X"]), weights=env.get(fit.get("w")))
        return model.fit(env.get(fit["X"]), env.dim(fit["X"]), weights=env.get(fit.get("w")))
    if spec.family == "cross":
        return model.fit(env.get(fit["X"]), env.get(fit["Y"]), env.dim(fit["X"]),
                         weights_X=env.get(fit.get("w")), weights_Y=env.get(fit.get("wY")))
    if spec.family == "multi":
        return model.fit([env.get(v) for v in fit["views"]], env.dim(fit["views"][0]))
    raise ValueError(spec.family)


def _affine(s, a, b):
    return s * a + b


def run_query(spec: Spec, obj, q: dict, env: Env):
    """Execute one query descriptor against ``obj`` and return whatever the API returns."""
    kind = q["q"]
    kw = q.get("kw", {})
    if kind == "call":
        return getattr(obj, q["name"])(**kw)
    if kind == "params":
        return copy.deepcopy(obj.get_params())
    if kind == "transform":
        if spec.family == "single":
            X = env.get(q["X"])
            if q.get("wrap") == "list" and not isinstance(X, list):
                X = [X]                      # a one-element list is accepted wherever a bare object is
            elif q.get("wrap") == "bare" and isinstance(X, list) and len(X) == 1:
                X = X[0]
            return obj.transform(X, **kw)
        if spec.family == "cross":
            return obj.transform(X=env.get(q.get("X")), Y=env.get(q.get("Y")), **kw)
        return obj.transform([env.get(v) for v in q["views"]])
    if kind == "predict":
        return obj.predict(env.get(q["X"]))
    if kind == "inverse":
        if spec.family == "single":
            if q["src"] == "scores":
                s = obj.scores()
            else:
                s = obj.transform(env.get(q["src"]))
            s = _affine(s.sel(mode=q["modes"]), q.get("a", 1.0), q.get("b", 0.0))
            return obj.inverse_transform(s, **kw)
        if spec.family == "cross":
            if q["src"] == "scores":
                sx, sy = obj.scores()
            else:
                sx, sy = obj.transform(X=env.get(q["src"][0]), Y=env.get(q["src"][1]))
            sx = _affine(sx.sel(mode=q["modes"]), q.get("a", 1.0), q.get("b", 0.0))
            sy = _affine(sy.sel(mode=q["modes"]), q.get("a", 1.0), q.get("b", 0.0))
            which = q.get("which", "XY")
            return obj.inverse_transform(X=sx if "X" in which else None, Y=sy if "Y" in which else None)
    if kind == "serde":
        clone = type(obj).deserialize(obj.serialize())
        return run_query(spec, clone, q["sub"], env)
    raise ValueError(f"unknown query {q}")


def draw_queries(rng, spec: Spec, fit: dict, new_ids: list, n_modes: int, *, k: int,
                 rotator: bool = False, with_input: bool = True, serde: bool = True) -> list[dict]:
    """A random selection of k queries that are *applicable in form* for this class."""
    pool: list[dict] = []
    calls = list(spec.calls)
    if rotator and spec.family == "single":
        calls = [c for c in calls if c[0] != "singular_values" or True]
    for name, kw in calls:
        pool.append({"q": "call", "name": name, "kw": kw})
    if with_input:
        for name, kw in spec.calls_input:
            pool.append({"q": "call", "name": name, "kw": kw})
    modes = sorted(rng.sample(range(1, n_modes + 1), rng.randint(1, n_modes)))
    if spec.family == "single":
        if spec.has_transform:
            pool.append({"q": "transform", "X": fit["X"]})
            pool.append({"q": "transform", "X": fit["X"], "kw": {"normalized": True}})
            for nid in new_ids:
                pool.append({"q": "transform", "X": nid})
            pool.append({"q": "transform", "X": fit["X"], "wrap": "list"})
            pool.append({"q": "transform", "X": (new_ids or [fit["X"]])[0], "wrap": "list"})
        if spec.has_inverse:
            pool.append({"q": "inverse", "src": "scores", "modes": modes, "a": 1.0, "b": 0.0})
            pool.append({"q": "inverse", "src": "scores", "modes": modes, "a": 0.5, "b": 0.25,
                         "kw": {"normalized": True}})
            if spec.has_transform:
                for nid in new_ids[:1]:
                    pool.append({"q": "inverse", "src": nid, "modes": modes, "a": 2.0, "b": -0.5})
    elif spec.family == "cross":
        if spec.has_transform:
            pool.append({"q": "transform", "X": fit["X"], "Y": fit["Y"]})
            pool.append({"q": "transform", "X": fit["X"], "Y": None, "kw": {"normalized": True}})
            pool.append({"q": "transform", "X": None, "Y": fit["Y"]})
            for nid in new_ids:
                pool.append({"q": "transform", "X": nid[0], "Y": nid[1]})
        pool.append({"q": "inverse", "src": "scores", "modes": modes, "a": 1.0, "b": 0.0})
        pool.append({"q": "inverse", "src": "scores", "modes": modes, "a": 0.5, "b": 0.1, "which": "X"})
        if spec.has_transform:
            for nid in new_ids[:1]:
                pool.append({"q": "inverse", "src": list(nid), "modes": modes, "a": 1.5, "b": 0.0, "which": "Y"})
        if spec.has_predict:
            pool.append({"q": "predict", "X": fit["X"]})
            for nid in new_ids:
                pool.append({"q": "predict", "X": nid[0]})
    else:
        pool.append({"q": "transform", "views": fit["views"]})
    pool.append({"q": "params"})
    if serde and spec.family != "multi":
        pool.append({"q": "serde", "sub": {"q": "call", "name": "components", "kw": {}}})
        pool.append({"q": "serde", "sub": {"q": "call", "name": "scores", "kw": {}}})
    if k >= len(pool):
        return pool
    return [pool[i] for i in sorted(rng.sample(range(len(pool)), k))]


def all_queries(spec: Spec, fit: dict, new_ids: list, n_modes: int, **kw) -> list[dict]:
    import random
    return draw_queries(random.Random(0), spec, fit, new_ids, n_modes, k=10 ** 6, **kw)
