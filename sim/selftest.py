"""Determinism proof of the simulator itself (DESIGN 8).

Every run seed is executed twice in *fresh interpreters*: once with PYTHONHASHSEED=0 and a pool of
16 worker processes, once with another PYTHONHASHSEED, a pool of 5 and a perturbed ambient start
state. The full event logs are compared in two layers:
  decision layer - operations, outcome kinds, call sites, canonical task labels in execution order,
                   faults fired, verdicts (a divergence here is a harness error: exit 2);
  value layer    - bitwise digests of every compared answer (expected to agree as well, BLAS being
                   single-threaded; reported separately).
Usage: check selftest [--n=60] [--machines=C12,C13,C14] [--base=7000]
"""
from __future__ import annotations

import concurrent.futures as cf
import json
import multiprocessing as mp
import os
import subprocess
import sys
import time

from . import VERIF, seeds


def _one(args):
    prop, seed = args
    import contextlib
    import io
    import random
    import warnings

    import numpy as np
    warnings.filterwarnings("ignore")
    from .runner import machine
    if os.environ.get("SELFTEST_AMBIENT"):
        np.random.seed(int(os.environ["SELFTEST_AMBIENT"]))
        random.seed(int(os.environ["SELFTEST_AMBIENT"]))
        np.random.random(17)
    m = machine(prop)
    try:
        cfg = m.generate(seed, "quick")
        with contextlib.redirect_stdout(io.StringIO()):
            res = m.execute(cfg)
        return dict(prop=prop, seed=seed, decision=res.decision_digest(), ops=res.ops_digest(), value=res.value_digest(),
                    cfg=seeds.digest_text(json.dumps(cfg, sort_keys=True, default=str)),
                    viol=[v.signature() for v in res.violations], nlog=len(res.log))
    except BaseException as e:  # noqa: BLE001
        return dict(prop=prop, seed=seed, decision=f"EXC:{type(e).__name__}", ops="", value="", cfg="", viol=[], nlog=0)


def digests_main(argv) -> int:
    """(internal) run the listed seeds in this interpreter, print one JSON line per run."""
    props = argv[0].split(",")
    base, n, workers = int(argv[1]), int(argv[2]), int(argv[3])
    jobs = [(p, seeds.run_seed(base, i)) for p in props for i in range(n)]
    ctx = mp.get_context("fork")
    with cf.ProcessPoolExecutor(max_workers=workers, mp_context=ctx) as ex:
        for r in ex.map(_one, jobs, chunksize=1):
            print(json.dumps(r, sort_keys=True))
    return 0


def monitor_selfcheck() -> list[str]:
    """The scheduler's purity / idempotence monitors must fire on synthetic graphs built to violate them
    (a task body that scribbles on its input block; a task body that draws from numpy's global RNG)."""
    import dask
    import dask.array as da
    import numpy as np

    from . import sched
    problems = []

    def scribble(x):
        x *= 2.0
        return x.sum(keepdims=True)

    def noisy(x):
        return x + np.random.random(x.shape)

    b = da.from_array(np.arange(12.0).reshape(4, 3), chunks=(2, 3)) + 1
    d = b.sum() + b.map_blocks(scribble, chunks=((1, 1), (1,))).sum()
    s1 = sched.SimScheduler(1, sched.Config(W=2, reexec=0.5))
    with dask.config.set(scheduler=s1.get):
        d.compute()
    if not any("impure task" in m for m in s1.monitor_failures):
        problems.append("purity monitor did not fire on a task that mutates its input block")
    s2 = sched.SimScheduler(2, sched.Config(W=2, reexec=0.9))
    with dask.config.set(scheduler=s2.get):
        b.map_blocks(noisy).sum().compute()
    if s2.stats.fault.get("reexec", 0) and not any("non-idempotent" in m for m in s2.monitor_failures):
        problems.append("idempotence monitor did not fire on a task that draws from the global RNG")
    s3 = sched.SimScheduler(3, sched.Config(W=3, reexec=0.3, transient=0.2, stall=0.3))
    with dask.config.set(scheduler=s3.get):
        v = float((b @ b.T).sum().compute())
    if abs(v - float(((np.arange(12.0).reshape(4, 3) + 1) @ (np.arange(12.0).reshape(4, 3) + 1).T).sum())) > 1e-9 or s3.monitor_failures:
        problems.append("a pure graph was not computed correctly / raised a monitor alarm under faults")
    return problems


def main(argv) -> int:
    problems = monitor_selfcheck()
    print("monitor self-check:", "OK (purity and idempotence monitors fire on synthetic offenders, stay quiet on a pure graph)"
          if not problems else problems)
    if problems:
        return 2
    n, props, base = 60, "C12,C13,C14", 7000
    for a in argv:
        if a.startswith("--n="):
            n = int(a[4:])
        if a.startswith("--machines="):
            props = a.split("=", 1)[1]
        if a.startswith("--base="):
            base = int(a.split("=", 1)[1])
    t0 = time.time()
    cli = os.path.join(VERIF, "sim", "cli.py")

    def launch(hashseed, workers, ambient):
        env = dict(os.environ, PYTHONHASHSEED=str(hashseed))
        if ambient:
            env["SELFTEST_AMBIENT"] = str(ambient)
        else:
            env.pop("SELFTEST_AMBIENT", None)
        return subprocess.Popen([sys.executable, cli, "_digests", props, str(base), str(n), str(workers)],
                                stdout=subprocess.PIPE, stderr=subprocess.DEVNULL, text=True, env=env, cwd=VERIF)

    pa = launch(0, 11, None)
    pa2 = launch(0, 5, 424242)
    pb = launch(314159, 5, 99)
    outs = []
    for p in (pa, pa2, pb):
        out, _ = p.communicate(timeout=2700)
        rows = {}
        for line in out.splitlines():
            if line.startswith("{"):
                r = json.loads(line)
                rows[(r["prop"], r["seed"])] = r
        outs.append(rows)
    a, a2, b = outs
    keys = sorted(set(a) | set(a2) | set(b))
    dec_div, val_div, hash_ops_div, hash_val_div, missing, exc = [], [], [], [], [], []
    for k in keys:
        if k not in a or k not in a2 or k not in b:
            missing.append(k)
            continue
        if any(x[k]["decision"].startswith("EXC") for x in (a, a2, b)):
            exc.append((k, a[k]["decision"], a2[k]["decision"], b[k]["decision"]))
        # same PYTHONHASHSEED, other pool size, other ambient start state: everything must agree
        if a[k]["cfg"] != a2[k]["cfg"] or a[k]["decision"] != a2[k]["decision"] or a[k]["viol"] != a2[k]["viol"]:
            dec_div.append(k)
        elif a[k]["value"] != a2[k]["value"]:
            val_div.append(k)
        # other PYTHONHASHSEED: configuration, operations, outcomes, verdicts and values must agree; the
        # scheduler-level digests may not (dask builds/optimises its graphs by iterating over sets)
        if a[k]["cfg"] != b[k]["cfg"] or a[k]["ops"] != b[k]["ops"] or a[k]["viol"] != b[k]["viol"]:
            hash_ops_div.append(k)
        elif a[k]["value"] != b[k]["value"]:
            hash_val_div.append(k)
    n_sched_diff = sum(1 for k in keys if k in a and k in b and a[k]["decision"] != b[k]["decision"])
    print(f"selftest: {len(keys)} runs x 3 fresh interpreters in {time.time() - t0:.0f}s")
    print(f"  same PYTHONHASHSEED (0), pools 11 vs 5, different ambient start state:")
    print(f"    decision-layer divergences: {len(dec_div)} {dec_div[:5]}")
    print(f"    value-layer-only divergences: {len(val_div)} {val_div[:5]}")
    print(f"  PYTHONHASHSEED 0 vs 314159:")
    print(f"    configuration/operation/outcome/verdict divergences: {len(hash_ops_div)} {hash_ops_div[:5]}")
    print(f"    value-layer-only divergences: {len(hash_val_div)} {hash_val_div[:5]}")
    print(f"    runs whose task-graph/interleaving digests differ (expected: dask graph construction is hash-order dependent): {n_sched_diff}")
    print(f"  runs that raised inside the harness: {len(exc)} {exc[:3]}")
    print(f"  missing: {len(missing)}")
    report = dict(runs=len(keys), decision_divergences=[list(k) for k in dec_div], value_divergences=[list(k) for k in val_div],
                  hashseed_ops_divergences=[list(k) for k in hash_ops_div], hashseed_value_divergences=[list(k) for k in hash_val_div],
                  hashseed_sched_digest_differences=n_sched_diff,
                  harness_exceptions=len(exc), missing=len(missing), wall_s=round(time.time() - t0, 1),
                  hashseeds=[0, 0, 314159], pools=[11, 5, 5])
    os.makedirs(os.path.join(VERIF, "evidence"), exist_ok=True)
    with open(os.path.join(VERIF, "evidence", "selftest.json"), "w") as f:
        json.dump(report, f, indent=1, sort_keys=True)
    if dec_div or hash_ops_div or missing or exc:
        return 2
    if val_div or hash_val_div:
        print("  NOTE: floating-point irreproducibility without decision divergence (see DESIGN 8)")
        return 3
    print("  deterministic: OK")
    return 0
