"""Sensitivity run (DESIGN 8.2): every seeded change under /verif/seeded/<id>/ is applied to a scratch
worktree of /repo (outside /repo and /verif, removed afterwards) and the registered quick check of its
property is run against that tree; each must produce exit 1 (a VIOLATION) within the quick budget.

Usage: check sensitivity [--only=<id>[,<id>...]] [--tier=quick] [--seed=0]
"""
from __future__ import annotations

import json
import os
import shutil
import subprocess
import sys
import time

from . import REPO, VERIF


def main(argv) -> int:
    only, tier, seed = None, "quick", "0"
    for a in argv:
        if a.startswith("--only="):
            only = set(a.split("=", 1)[1].split(","))
        if a.startswith("--tier="):
            tier = a.split("=", 1)[1]
        if a.startswith("--seed="):
            seed = a.split("=", 1)[1]
    root = os.path.join(VERIF, "seeded")
    ids = sorted(d for d in os.listdir(root) if os.path.exists(os.path.join(root, d, "patch.diff")))
    if only:
        ids = [i for i in ids if i in only]
    scratch = f"/dev/shm/xeofs-mut-{os.getpid()}"
    rows = []
    try:
        subprocess.run(["git", "-C", REPO, "worktree", "add", "-q", "--detach", scratch, "HEAD"], check=True)
        for mid in ids:
            meta = json.load(open(os.path.join(root, mid, "meta.json")))
            prop = meta["property"]
            subprocess.run(["git", "-C", scratch, "checkout", "-q", "--", "."], check=True)
            base = "HEAD" if "baseline_commit" not in meta else meta["baseline_commit"]
            subprocess.run(["git", "-C", scratch, "checkout", "-q", "--detach",
                            subprocess.check_output(["git", "-C", REPO, "rev-parse", base], text=True).strip()], check=True)
            ap = subprocess.run(["git", "-C", scratch, "apply", os.path.join(root, mid, "patch.diff")],
                                capture_output=True, text=True)
            if ap.returncode != 0:
                rows.append((mid, prop, "patch does not apply to the current tree", None, False))
                continue
            t0 = time.time()
            env = dict(os.environ, XEOFS_VERIF_REPO=scratch, VERIF_SEED=seed)
            p = subprocess.run([os.path.join(VERIF, "check"), prop, tier], capture_output=True, text=True, env=env, cwd=VERIF)
            sigs = sorted({l.split("signature:", 1)[1].strip() for l in p.stdout.splitlines() if "signature:" in l})
            outside = bool(meta.get("outside_property_as_read"))
            rows.append((mid, prop, f"exit {p.returncode} in {time.time() - t0:.0f}s", sigs[:3], outside))
            print(f"{mid:10s} {prop} exit={p.returncode} {sigs[:2]}", flush=True)
    finally:
        subprocess.run(["git", "-C", REPO, "worktree", "remove", "--force", scratch], capture_output=True)
        shutil.rmtree(scratch, ignore_errors=True)
        # the evidence files and replay directory now describe mutated trees: they must be rewritten by a
        # run of the checks against /repo itself before anything is committed
    # (a change recorded as outside the property as read - meta.json "outside_property_as_read" - is expected
    #  to leave the check silent; it is listed, not counted)
    outside = [r for r in rows if r[4]]
    rows = [r for r in rows if not r[4]]
    missed = [r for r in rows if not r[2].startswith("exit 1")]
    print(f"sensitivity: {len(rows) - len(missed)} of {len(rows)} seeded changes caught")
    for r in outside:
        print("  outside the property as read (not claimed):", r[:3])
    for r in missed:
        print("  NOT CAUGHT:", r)
    return 0 if not missed else 1
