"""Batch runner: seeded search over many simulated runs, minimisation, replay files, evidence.

Exit codes (DESIGN 2.6): 0 = held on everything explored (possibly KNOWN-FINDING lines),
1 = at least one ``VIOLATION property=<id> replay=<path>``, 2 = harness error / timeout.
"""
from __future__ import annotations

import concurrent.futures as cf
import contextlib
import io
import faulthandler
import importlib
import json
import multiprocessing as mp
import os
import signal
import sys
import time
import traceback

from . import VERIF, core, findings, minimise, seeds

MACHINES = {"C12": "sim.machines.c12", "C13": "sim.machines.c13", "C14": "sim.machines.c14"}

TIERS = {
    # wall budget for the search phase (s), per-run cap (s), max runs
    "quick": dict(budget=100, run_cap=90, max_runs=100000, minimise_budget=90),
    "thorough": dict(budget=1500, run_cap=180, max_runs=10 ** 7, minimise_budget=300),
}


MAX_REPORTED = 5      # distinct signatures written out as replay files per batch
MAX_MINIMISED = 3     # of which this many are minimised (the rest are reported unminimised)


def machine(prop: str):
    return importlib.import_module(MACHINES[prop])


from .oracle import RunTimeout  # noqa: E402


def _alarm(signum, frame):
    raise RunTimeout()


def run_one(prop: str, seed: int, tier: str, cap: int) -> dict:
    """Executed in a worker process. Never raises: harness problems are reported as such."""
    import warnings
    warnings.filterwarnings("ignore")
    m = machine(prop)
    t0 = time.perf_counter()
    signal.signal(signal.SIGALRM, _alarm)
    signal.alarm(cap)
    try:
        cfg = m.generate(seed, tier)
        with contextlib.redirect_stdout(io.StringIO()):     # xeofs.multi.CCA print()s warnings
            res = m.execute(cfg)
        out = res.brief()
        out["nontrivial"] = bool(m.nontrivial(out))
        out["sample"] = {"seed": seed, "spec": cfg.get("spec"), "ops": [_short(o) for o in cfg.get("ops", [])][:30]}
        if not cfg.get("ops"):     # C12: the history is a fixed protocol parameterised by the configuration
            out["sample"] = {"seed": seed, "spec": cfg.get("spec"),
                             "configuration": {k: cfg.get(k) for k in ("deferred", "params", "rot_params", "chunks", "sched",
                                                                      "handles", "handle_timing", "fault_compute", "fault_fit", "rot_refit_fault", "s1", "compute_twice")},
                             "protocol": [l for l in res.log if l.startswith("op ")][:20],
                             "interleaving_digests": res.coverage.get("interleavings", [])[:4]}
        if res.violations:
            out["config"] = cfg
    except RunTimeout:
        out = dict(seed=seed, harness_error=f"run exceeded the {cap}s wall cap", violations=[], stats={}, coverage={})
    except BaseException as e:  # noqa: BLE001
        out = dict(seed=seed, harness_error=f"{type(e).__name__}: {e}\n{traceback.format_exc(limit=10)}",
                   violations=[], stats={}, coverage={})
    finally:
        signal.alarm(0)
    out["wall"] = time.perf_counter() - t0
    return out


def _short(o):
    return {k: v for k, v in o.items() if k != "id"}


def _init_worker():
    faulthandler.enable()
    os.environ["PYTHONHASHSEED"] = os.environ.get("PYTHONHASHSEED", "0")


def batch(prop: str, tier: str, batch_seed: int, *, workers: int | None = None, budget: float | None = None,
          max_runs: int | None = None, quiet=False) -> int:
    t_start = time.time()
    tcfg = dict(TIERS[tier])
    if budget is not None:
        tcfg["budget"] = budget
    if max_runs is not None:
        tcfg["max_runs"] = max_runs
    workers = workers or min(16, os.cpu_count() or 4)
    m = machine(prop)
    known = findings.load()
    ctx = mp.get_context("fork")
    results: list[dict] = []
    harness_errors: list[str] = []
    deadline = t_start + tcfg["budget"]
    hard_deadline = deadline + tcfg["run_cap"] + 30
    i = 0
    with cf.ProcessPoolExecutor(max_workers=workers, mp_context=ctx, initializer=_init_worker) as ex:
        pending = set()
        known_futs = [(k, ex.submit(minimise.replay_quiet, os.path.join(VERIF, k["replay"]))) for k in known
                      if k.get("status") == "known" and k.get("property") == prop and k.get("replay")]
        try:
            while True:
                while len(pending) < workers * 2 and time.time() < deadline and i < tcfg["max_runs"]:
                    pending.add(ex.submit(run_one, prop, seeds.run_seed(batch_seed, i), tier, tcfg["run_cap"]))
                    i += 1
                if not pending:
                    break
                done, pending = cf.wait(pending, timeout=5, return_when=cf.FIRST_COMPLETED)
                for f in done:
                    try:
                        results.append(f.result())
                    except BaseException as e:  # noqa: BLE001  (worker died)
                        harness_errors.append(f"worker failure: {type(e).__name__}: {e}")
                if time.time() > hard_deadline:
                    harness_errors.append(f"batch exceeded hard deadline with {len(pending)} runs pending")
                    for p in list(ex._processes.values()):
                        p.kill()
                    break
            cf.wait([f for _, f in known_futs], timeout=tcfg["run_cap"] * 2)
        except cf.process.BrokenProcessPool as e:
            harness_errors.append(f"process pool broke: {e}")
    search_wall = time.time() - t_start
    # a run that hit its wall cap proves nothing either way: it is not an evaluation and never a pass. A few
    # of them (a loaded machine) do not invalidate the batch; many of them do.
    timeouts = [r for r in results if (r.get("harness_error") or "").startswith("run exceeded")]
    results = [r for r in results if r not in timeouts]
    if len(timeouts) > max(3, 0.02 * max(1, len(results))):
        harness_errors.append(f"{len(timeouts)} of {len(results) + len(timeouts)} runs exceeded the {tcfg['run_cap']}s wall cap "
                              f"(seeds {[r['seed'] for r in timeouts[:5]]})")
    for r in results:
        if r.get("harness_error"):
            harness_errors.append(f"seed {r['seed']}: {r['harness_error']}")

    # ---- known findings: each committed replay file was replayed alongside the search (deterministic
    # re-detection); a listed finding prints its line iff it still reproduces --------------------------
    exit_code = 0
    seen_known: set[str] = set()
    for k, fut in known_futs:
        path = os.path.join(VERIF, k["replay"])
        try:
            got, rec = fut.result(timeout=5)
        except Exception as e:  # noqa: BLE001
            harness_errors.append(f"known finding {k['id']}: replay failed: {type(e).__name__}: {e}")
            continue
        if got is not None and findings.match([k], {"violation": got, "config": rec["config"], "history": rec.get("history", "")}):
            seen_known.add(k["id"])
            print(f"KNOWN-FINDING: property={prop} {k['what']} [{k['id']}] replay={path}")
        else:
            print(f"NOTE: known finding {k['id']} no longer reproduces from {path} (fixed? then mark it fixed in known_findings.json)")

    # ---- violations: classify, minimise, write replay, verify replay ---------------------------------
    viol_runs = [r for r in results if r["violations"]]
    viol_runs.sort(key=lambda r: r["seed"])
    by_sig: dict[str, dict] = {}
    known_hits = []
    for r in viol_runs:
        v, hits = findings.first_unknown(known, r["violations"], r["config"])
        known_hits += hits           # listed findings met again by the random search: not reported twice
        if v is None:
            continue
        r["first_unknown"] = v
        by_sig.setdefault(v["signature"], r)
    reported = []
    t_min = time.time()
    for sig, r in sorted(by_sig.items())[:MAX_REPORTED]:
        if (time.time() - t_min > tcfg["minimise_budget"] and len(reported) >= 1) or len(reported) >= MAX_MINIMISED:
            # not minimised for lack of time: still reported, from the unminimised configuration
            rec = minimise.write_replay(prop, r["config"], r["first_unknown"], minimised=False)
        else:
            rec = minimise.minimise_and_write(prop, r["config"], r["first_unknown"],
                                              budget=max(20, tcfg["minimise_budget"] / max(1, min(len(by_sig), MAX_MINIMISED))),
                                              workers=workers)
        reported.append(rec)
    new_viol = []
    for rec in reported:
        hit = findings.match(known, rec)
        if hit is not None:
            known_hits.append(hit["id"])
        else:
            new_viol.append(rec)
    for rec in new_viol:
        ok = minimise.verify_replay(rec["path"])
        if not ok:
            harness_errors.append(f"replay file {rec['path']} did not reproduce its violation in a fresh interpreter")
        print(f"VIOLATION property={prop} replay={rec['path']}")
        print(f"  signature: {rec['violation']['signature']}")
        print(f"  detail: {rec['violation']['detail'][:400]}")
        exit_code = 1

    # ---- evidence ------------------------------------------------------------------------------------
    from . import evidence
    evidence.write(prop, tier, batch_seed, results, search_wall=search_wall, total_wall=time.time() - t_start,
                   n_violations=len(new_viol), known_hits=sorted(seen_known | set(known_hits)),
                   harness_errors=harness_errors, workers=workers, timeouts=[r["seed"] for r in timeouts])
    if not quiet:
        n = len(results)
        nt = sum(1 for r in results if r.get("nontrivial"))
        print(f"[{prop} {tier}] seed={batch_seed} runs={n} nontrivial={nt} wall={time.time() - t_start:.1f}s "
              f"violating_runs={len(viol_runs)} distinct_signatures={len(by_sig)} known={len(seen_known | set(known_hits))} "
              f"new={len(new_viol)} harness_errors={len(harness_errors)}")
    if harness_errors:
        for h in harness_errors[:10]:
            print("HARNESS-ERROR:", h.splitlines()[0][:300], file=sys.stderr)
            if os.environ.get("VERIF_DEBUG"):
                print(h, file=sys.stderr)
        if exit_code == 0:
            exit_code = 2
    return exit_code
