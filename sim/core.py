"""Run plumbing shared by the three machines: violations, run results, ambient seams."""
from __future__ import annotations

import contextlib
import datetime as _dt
import json
import random
from dataclasses import dataclass, field
from typing import Any

import dask
import numpy as np

from . import seeds


@dataclass
class Violation:
    property: str
    invariant: str          # e.g. H1, H3, H4, R0, R2, L0, L2, E1, F, S1, PURITY
    cls: str                # model class under test
    symptom: str            # coarse, replay-stable classification (values | labels | outcome:..)
    detail: str             # human-readable, may contain numbers
    op_index: int = -1
    op_kind: str = ""
    site: str = ""          # call site for laziness verdicts
    tags: str = ""          # replay-stable facts about the configuration (config_tags)

    def signature(self) -> str:
        s = f"{self.invariant}|{self.cls}|{self.op_kind}|{self.symptom}"
        if self.site:
            s += f"|{self.site}"
        return s

    def to_json(self):
        return dict(property=self.property, invariant=self.invariant, cls=self.cls, symptom=self.symptom,
                    detail=self.detail, op_index=self.op_index, op_kind=self.op_kind, site=self.site,
                    tags=self.tags, signature=self.signature())


@dataclass
class RunResult:
    seed: int
    violations: list[Violation] = field(default_factory=list)
    log: list[str] = field(default_factory=list)        # decision layer (replay-stable)
    vlog: list[str] = field(default_factory=list)       # value layer (bitwise digests)
    stats: dict = field(default_factory=dict)
    coverage: dict = field(default_factory=dict)        # sets encoded as lists of strings
    harness_error: str | None = None
    config: dict | None = None

    def decision_digest(self) -> str:
        return seeds.digest_text("\n".join(self.log))

    def ops_digest(self) -> str:
        """Decision layer without the scheduler-level lines (graph sizes and interleaving digests depend on
        dask's own graph optimisation, which iterates over sets: stable only under a pinned PYTHONHASHSEED)."""
        return seeds.digest_text("\n".join(l for l in self.log if not l.startswith("sched ")))

    def value_digest(self) -> str:
        return seeds.digest_text("\n".join(self.vlog))

    def brief(self) -> dict:
        return dict(seed=self.seed, violations=[v.to_json() for v in self.violations],
                    stats=self.stats, coverage=self.coverage, harness_error=self.harness_error,
                    decision=self.decision_digest(), value=self.value_digest())


def config_tags(cfg: dict) -> str:
    """Facts about a configuration that known findings may be keyed on."""
    tags = []
    if cfg.get("lazy"):
        tags.append("lazy")
    for d in (cfg.get("descs") or {}).values():
        if d.get("container") == "ds" and len({json.dumps(f) for f in d.get("fields", [])}) > 1:
            tags.append("hetero_ds")
            break
    if any(d.get("extra_coord") for d in (cfg.get("descs") or {}).values()):
        tags.append("extra_coord")
    return ",".join(tags)


def symptom_of(diffs: list[str]) -> str:
    """Coarse class of a comparison failure, stable across minimisation."""
    d = " ".join(diffs)
    if "outcome" in d:
        # "outcome exc:KeyError (...) != reference ok"
        import re
        m = re.search(r"outcome (\S+) .*?!= reference (\S+)", d)
        if m:
            return f"outcome:{m.group(1)}!={m.group(2)}"
        return "outcome"
    if "dims order" in d:
        return "dimorder"
    if "labels differ" in d or "dims" in d or "length" in d or "index present" in d or "MultiIndex" in d:
        return "labels"
    if "NaN pattern" in d or "inf pattern" in d:
        return "nanpattern"
    if "values differ" in d:
        return "values"
    if "variables" in d or "type" in d or "sequence" in d:
        return "structure"
    return "other"


# ----------------------------------------------------------------------------------------------
# simulated clock + ambient RNG (DESIGN 2.4)
# ----------------------------------------------------------------------------------------------
class SimClock:
    def __init__(self, seed: int):
        self.seed = seed
        self.entropy_draws = {"uuid": 0, "numpy": 0}
        r = seeds.stream(seed, "clock")
        self.t = _dt.datetime(1990 + r.randrange(60), 1 + r.randrange(12), 1 + r.randrange(28),
                              r.randrange(24), r.randrange(60), r.randrange(60))
        self.t0 = self.t
        self.jumps = 0
        self.min_t = self.t
        self.max_t = self.t

    def now(self, tz=None):
        self.t = self.t + _dt.timedelta(seconds=1)
        return self.t

    def jump(self, seconds: float):
        self.jumps += 1
        try:
            self.t = self.t + _dt.timedelta(seconds=seconds)
        except OverflowError:
            pass
        self.min_t = min(self.min_t, self.t)
        self.max_t = max(self.max_t, self.t)

    def span_seconds(self) -> float:
        return (self.max_t - self.min_t).total_seconds()


class _FakeDatetime:
    """Stands in for the ``datetime`` *class* imported by xeofs modules (only ``now`` is used)."""

    def __init__(self, clock: SimClock):
        self._c = clock

    def now(self, tz=None):
        return self._c.now(tz)

    def __getattr__(self, name):
        return getattr(_dt.datetime, name)


_CLOCK_MODULES = ["xeofs.base_model", "xeofs.single.eof_rotator", "xeofs.validation.bootstrapper",
                  "xeofs.multi.cca"]


@contextlib.contextmanager
def simulated_ambient(clock: SimClock):
    """Replace the wall clock seam and tqdm's progress bar for the duration of a run."""
    import importlib
    saved = []
    fake = _FakeDatetime(clock)
    for name in _CLOCK_MODULES:
        try:
            mod = importlib.import_module(name)
        except Exception:
            continue
        if hasattr(mod, "datetime"):
            saved.append((mod, "datetime", mod.datetime))
            mod.datetime = fake
    try:
        bs = importlib.import_module("xeofs.validation.bootstrapper")
        saved.append((bs, "trange", bs.trange))
        bs.trange = range
    except Exception:
        pass
    # entropy seams: uuid4/uuid1 (dask names its finalize/wait_on/non-tokenisable objects with them, and its
    # graph optimisation orders by key) and numpy's OS-entropy source for generators created with seed None
    # (dask.array.random, svd_compressed(seed=None)). Both are fed from the run seed so that one seed is one
    # exactly repeatable execution; how often they are drawn from is counted.
    import uuid as _uuid

    import numpy.random.bit_generator as _bg
    er = seeds.stream(clock.seed, "entropy")
    clock.entropy_draws = {"uuid": 0, "numpy": 0}

    def fake_uuid4():
        clock.entropy_draws["uuid"] += 1
        return _uuid.UUID(int=er.getrandbits(128), version=4)

    def fake_randbits(k):
        clock.entropy_draws["numpy"] += 1
        return er.getrandbits(k)

    # dask.array.random keeps one process-global, entropy-seeded RandomState per backend (used by SparsePCA's
    # unseeded dask.array.random.standard_normal): a run must not inherit the draws of earlier runs
    try:
        import dask.array.random as _dar
        _dar._cached_states.clear()
    except Exception:
        pass
    saved.append((_uuid, "uuid4", _uuid.uuid4))
    saved.append((_uuid, "uuid1", _uuid.uuid1))
    saved.append((_bg, "randbits", _bg.randbits))
    _uuid.uuid4 = fake_uuid4
    _uuid.uuid1 = lambda *a, **k: fake_uuid4()
    _bg.randbits = fake_randbits
    try:
        yield
    finally:
        for mod, attr, val in saved:
            setattr(mod, attr, val)
        try:
            _dar._cached_states.clear()
        except Exception:
            pass


def ambient_event(seed: int, label: str, clock: SimClock | None):
    """Reseed/advance the process-global generators and jump the clock."""
    r = seeds.stream(seed, f"ambient/{label}")
    np.random.seed(r.randrange(2 ** 32))
    random.seed(r.randrange(2 ** 32))
    for _ in range(r.randrange(5)):
        np.random.random(r.randrange(1, 20))
        random.random()
    if clock is not None:
        kind = r.randrange(4)
        if kind == 0:
            clock.jump(r.uniform(-3e8, 3e8))       # +- ~10 years
        elif kind == 1:
            clock.jump(-r.uniform(0, 86400))
        elif kind == 2:
            clock.jump(r.uniform(0, 86400 * 400))


@contextlib.contextmanager
def reference_context():
    """Pristine context for reference computations: dask's own synchronous scheduler, fresh ambient RNG."""
    st_np = np.random.get_state()
    st_py = random.getstate()
    np.random.seed(987654321)
    random.seed(987654321)
    try:
        with dask.config.set(scheduler="synchronous"):
            yield
    finally:
        np.random.set_state(st_np)
        random.setstate(st_py)


def jdump(o) -> str:
    return json.dumps(o, sort_keys=True, default=_jd)


def _jd(o):
    if isinstance(o, np.generic):
        return o.item()
    if isinstance(o, (set, frozenset)):
        return sorted(o)
    if isinstance(o, tuple):
        return list(o)
    return repr(o)
