"""Minimisation of a violating run and replay files (DESIGN 2.6)."""
from __future__ import annotations

import concurrent.futures as cf
import copy
import importlib
import json
import multiprocessing as mp
import os
import signal
import subprocess
import sys
import time

from . import VERIF, core

REPLAYS = os.path.join(VERIF, "replays")


def _machine(prop):
    from .runner import MACHINES
    return importlib.import_module(MACHINES[prop])


def vkey(v: dict) -> tuple:
    return (v["invariant"], v["cls"], v["symptom"], v["op_kind"].split(":")[0], v.get("site", ""), v.get("tags", ""))


def _eval(args):
    prop, cfg, cap = args
    import warnings
    warnings.filterwarnings("ignore")
    from .oracle import RunTimeout
    signal.signal(signal.SIGALRM, lambda *a: (_ for _ in ()).throw(RunTimeout()))
    signal.alarm(cap)
    try:
        import contextlib
        import io
        with contextlib.redirect_stdout(io.StringIO()):
            res = _machine(prop).execute(cfg)
        if res.violations:
            from . import findings
            v, _ = findings.first_unknown(findings.load(), [x.to_json() for x in res.violations], cfg)
            if v is None:      # only known findings: when minimising a known finding itself, fall back to it
                v = res.violations[0].to_json()
            return v, res.decision_digest()
        return None, None
    except BaseException:  # noqa: BLE001
        return None, None
    finally:
        signal.alarm(0)


def history_of(cfg) -> str:
    m = _machine(cfg["property"])
    return ",".join(m._opk(o) for o in cfg.get("ops", []))


def minimise(prop: str, cfg: dict, v0: dict, *, budget: float, workers: int) -> tuple[dict, dict]:
    """ddmin over the operation list, then machine-specific simplifications."""
    t0 = time.time()
    key = vkey(v0)
    best, best_v = cfg, v0
    ctx = mp.get_context("fork")
    with cf.ProcessPoolExecutor(max_workers=workers, mp_context=ctx) as ex:
        def try_all(cands):
            if not cands:
                return None
            futs = [ex.submit(_eval, (prop, c, 60)) for c in cands]
            out = None
            for c, f in zip(cands, futs):
                try:
                    v, _ = f.result(timeout=120)
                except Exception:
                    v = None
                if out is None and v is not None and vkey(v) == key:
                    out = (c, v)
            return out

        # cut everything after the violating operation
        ops = best.get("ops") or []
        idx = next((i for i, o in enumerate(ops) if o.get("id") == v0.get("op_index")), len(ops) - 1)
        if ops and idx < len(ops) - 1:
            c = copy.deepcopy(best)
            c["ops"] = ops[:idx + 1]
            r = try_all([c])
            if r:
                best, best_v = r
        n = 2
        while len(best.get("ops") or []) >= 2 and time.time() - t0 < budget:
            ops = best["ops"]
            n = min(n, len(ops))
            size = -(-len(ops) // n)
            cands = []
            for i in range(0, len(ops), size):
                c = copy.deepcopy(best)
                c["ops"] = ops[:i] + ops[i + size:]
                if c["ops"]:
                    cands.append(c)
            r = try_all(cands)
            if r:
                best, best_v = r
                n = max(n - 1, 2)
            else:
                if n >= len(ops):
                    break
                n = min(len(ops), n * 2)
        # machine-specific simplifications, greedily, to a fixpoint
        m = _machine(prop)
        simp = getattr(m, "simplifications", None)
        changed = True
        while simp and changed and time.time() - t0 < budget:
            changed = False
            cands = list(simp(best))
            # evaluate in waves so that accepted simplifications compose
            for j in range(0, len(cands), workers):
                r = try_all(cands[j:j + workers])
                if r:
                    best, best_v = r
                    changed = True
                    break
    return best, best_v


def write_replay(prop: str, cfg: dict, v: dict, *, minimised: bool) -> dict:
    os.makedirs(REPLAYS, exist_ok=True)
    from . import seeds
    sig = seeds.digest_text(v["signature"])[:10]
    path = os.path.join(REPLAYS, f"{prop}-{cfg['seed']}-{sig}.json")
    rec = {"property": prop, "seed": cfg["seed"], "minimised": minimised, "violation": v,
           "history": history_of(cfg), "config": cfg}
    with open(path, "w") as f:
        json.dump(rec, f, indent=1, sort_keys=True, default=core._jd)
    rec["path"] = path
    return rec


def minimise_and_write(prop, cfg, v0, *, budget, workers) -> dict:
    try:
        best, best_v = minimise(prop, cfg, v0, budget=budget, workers=workers)
        return write_replay(prop, best, best_v, minimised=True)
    except Exception:  # minimisation is best effort; the unminimised run is still a valid replay
        return write_replay(prop, cfg, v0, minimised=False)


def replay(path: str) -> tuple[dict | None, dict]:
    with open(path) as f:
        rec = json.load(f)
    res = _machine(rec["property"]).execute(rec["config"])
    got = None
    if res.violations:
        # the record the file expects if it is among the run's violations, else the first one
        vs = [v.to_json() for v in res.violations]
        got = next((v for v in vs if v == rec["violation"]), None) or \
            next((v for v in vs if v.get("signature") == rec["violation"].get("signature")), None) or vs[0]
    return got, rec


def replay_quiet(path: str):
    import contextlib
    import io
    import warnings
    warnings.filterwarnings("ignore")
    with contextlib.redirect_stdout(io.StringIO()):
        return replay(path)


def verify_replay(path: str) -> bool:
    """Re-run the replay file in a fresh interpreter; it must print the identical violation record."""
    env = dict(os.environ, PYTHONHASHSEED="0")
    try:
        p = subprocess.run([sys.executable, os.path.join(VERIF, "sim", "cli.py"), "replay", path, "--quiet"],
                           capture_output=True, text=True, timeout=300, env=env, cwd=VERIF)
    except subprocess.TimeoutExpired:
        return False
    return p.returncode == 1 and "REPRODUCED" in p.stdout
