"""Known-findings file (DESIGN 9). Read-only at run time.

Entry: {"id", "property", "status": "known"|"fixed", "what", "match": {...}, "commit"?}
``match`` keys (all must hold; each value is a regular expression searched in the field):
  invariant, cls, symptom, op_kind, site, history  (history = comma-joined op kinds of the
  minimised replay), detail, params (JSON of the model's constructor parameters), spec.
Only ``status == "known"`` entries suppress anything; ``fixed`` entries are documentation.
"""
from __future__ import annotations

import json
import os
import re

from . import VERIF

PATH = os.path.join(VERIF, "known_findings.json")


def load() -> list[dict]:
    if not os.path.exists(PATH):
        return []
    with open(PATH) as f:
        data = json.load(f)
    return data.get("findings", [])


def match(known: list[dict], rec: dict) -> dict | None:
    v = rec["violation"]
    fields = dict(invariant=v.get("invariant", ""), cls=v.get("cls", ""), symptom=v.get("symptom", ""),
                  op_kind=v.get("op_kind", ""), site=v.get("site", ""), detail=v.get("detail", ""),
                  history=rec.get("history", ""), tags=v.get("tags", ""),
                  params=json.dumps((rec.get("config") or {}).get("params", {}), sort_keys=True),
                  spec=str((rec.get("config") or {}).get("spec", "")))
    for k in known:
        if k.get("status") != "known" or k.get("property") != v.get("property"):
            continue
        ok = True
        for key, pat in k.get("match", {}).items():
            if not re.search(pat, fields.get(key, "")):
                ok = False
                break
        if ok:
            return k
    return None


def first_unknown(known: list[dict], violations: list[dict], config: dict) -> tuple[dict | None, list[str]]:
    """The first violation of a run that no known finding covers, plus the ids of the known ones met."""
    hits = []
    for v in violations:
        k = match(known, {"violation": v, "config": config, "history": ""})
        if k is None:
            return v, hits
        hits.append(k["id"])
    return None, hits
