"""Deterministic simulation harness for xeofs (see /verif/DESIGN.md)."""
import os
import sys

# one BLAS thread per process: replayable floating point, and batches use processes for parallelism
for _v in ("OMP_NUM_THREADS", "OPENBLAS_NUM_THREADS", "MKL_NUM_THREADS", "NUMEXPR_NUM_THREADS"):
    os.environ.setdefault(_v, "1")

_HERE = os.path.dirname(os.path.abspath(__file__))
VERIF = os.path.dirname(_HERE)
REPO = os.environ.get("XEOFS_VERIF_REPO", "/repo")

# xeofs is imported from /repo's working tree (first on sys.path); the statsmodels import shim
# lives under /verif/stubs and is appended last so a real statsmodels would win if present.
if REPO not in sys.path:
    sys.path.insert(0, REPO)
_stubs = os.path.join(VERIF, "stubs")
if _stubs not in sys.path:
    sys.path.append(_stubs)
