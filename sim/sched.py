"""SimScheduler: the dask seam (DESIGN 2.3).

Installed with ``dask.config.set(scheduler=sim.get)``. Every ``dask.compute``, ``.values``,
``.item()``, ``bool()``, ``np.asarray`` on a lazy array reaches ``get(expr, keys)``. The real dask
schedulers are replaced: *which task runs next* and *which task fails* is decided here, by a PRNG
seeded from the run seed. Task bodies are the real ones.
"""
from __future__ import annotations

import hashlib
import sys
from collections import defaultdict

import numpy as np
from dask._task_spec import Alias, DataNode, GraphNode, Task, convert_legacy_graph
from dask.core import flatten
from dask.utils import key_split

from . import seeds
from .oracle import InjectedFault


class SimHarnessError(RuntimeError):
    """Something is wrong with the simulation itself (never reported as a property violation)."""


class PurityViolation(AssertionError):
    pass


def _h(*parts) -> str:
    m = hashlib.blake2b(digest_size=8)
    for p in parts:
        m.update(p if isinstance(p, bytes) else str(p).encode())
        m.update(b"\x00")
    return m.hexdigest()


def _lit(a, depth=0) -> str:
    """Replay-stable description of a literal task argument."""
    if depth > 3:
        return "..."
    if isinstance(a, np.ndarray):
        if a.dtype.kind == "O" or a.size > 4096:
            return f"nd{a.shape}{a.dtype}"
        return "nd" + _h(np.ascontiguousarray(a).tobytes())
    if isinstance(a, (int, float, complex, str, bool, type(None), slice, bytes, np.generic)):
        return repr(a)
    if isinstance(a, (tuple, list)):
        return "(" + ",".join(_lit(x, depth + 1) for x in a[:16]) + ")"
    if isinstance(a, dict):
        return f"dict{len(a)}"
    if isinstance(a, GraphNode):
        return type(a).__name__
    return type(a).__name__


def _value_digest(v, depth=0) -> bytes:
    """Digest of every array reachable from a task input/result (purity & idempotence monitors)."""
    if depth > 4:
        return b"..."
    if isinstance(v, np.ndarray):
        if v.dtype.kind == "O":
            return repr(v.tolist()).encode()
        return hashlib.blake2b(np.ascontiguousarray(v).tobytes(), digest_size=8).digest()
    if isinstance(v, (tuple, list)):
        return b"(" + b",".join(_value_digest(x, depth + 1) for x in v) + b")"
    if isinstance(v, dict):
        return b"{" + b",".join(_value_digest(v[k], depth + 1) for k in sorted(v, key=str)) + b"}"
    if isinstance(v, (int, float, complex, str, bool, type(None), np.generic)):
        return repr(v).encode()
    return type(v).__name__.encode()


def _close(a, b, rtol=1e-13, depth=0) -> bool:
    if depth > 4:
        return True
    if isinstance(a, np.ndarray) and isinstance(b, np.ndarray):
        if a.shape != b.shape:
            return False
        if a.dtype.kind in "fc":
            with np.errstate(all="ignore"):
                scale = max(float(np.nanmax(np.abs(a))) if a.size else 0.0, 1e-300)
                return bool(np.allclose(a, b, rtol=0, atol=rtol * scale, equal_nan=True))
        return bool(np.array_equal(a, b))
    if isinstance(a, (tuple, list)) and isinstance(b, (tuple, list)):
        return len(a) == len(b) and all(_close(x, y, rtol, depth + 1) for x, y in zip(a, b))
    if isinstance(a, (int, float, complex, np.generic)) and isinstance(b, (int, float, complex, np.generic)):
        try:
            return bool(np.isclose(a, b, rtol=rtol, atol=0, equal_nan=True))
        except TypeError:
            return a == b
    return True


def call_site() -> tuple[str, str]:
    """Innermost frame inside the xeofs package (file relative to the package, function)."""
    f = sys._getframe(1)
    while f is not None:
        fn = f.f_code.co_filename.replace("\\", "/")
        i = fn.rfind("/xeofs/")
        if i >= 0 and "/site-packages/" not in fn[i:]:
            return fn[i + 1:], f.f_code.co_name
        f = f.f_back
    return "<outside xeofs>", ""


class Config:
    """Per-run scheduler configuration (drawn by the machine from the run's cfg stream)."""

    def __init__(self, W=1, reexec=0.0, transient=0.0, stall=0.0, retry_budget=3, purity=1.0,
                 permanent_at: int | None = None, permanent_exc: str = "InjectedFault"):
        self.W = int(W)
        self.reexec = float(reexec)
        self.transient = float(transient)
        self.stall = float(stall)
        self.retry_budget = int(retry_budget)
        self.purity = float(purity)
        self.permanent_at = permanent_at          # fail the n-th task start of a later get call
        self.permanent_exc = permanent_exc
        self.permanent_call = 1                   # ... namely of the k-th call after arming
        self.armed_calls = 0

    def to_json(self):
        return dict(W=self.W, reexec=self.reexec, transient=self.transient, stall=self.stall,
                    retry_budget=self.retry_budget, purity=self.purity,
                    permanent_at=self.permanent_at, permanent_exc=self.permanent_exc)

    @classmethod
    def from_json(cls, d):
        return cls(**d)


class Stats:
    def __init__(self):
        self.calls = 0
        self.tasks = 0
        self.events = 0
        self.fault = defaultdict(int)          # kind -> fired
        self.max_ready = 0
        self.nontrivial_calls = 0              # calls that had >1 ready task at some point
        self.digests: list[str] = []           # one interleaving digest per call
        self.sites = defaultdict(int)          # (file, func, op) -> calls
        self.purity_checked = 0
        self.idem_checked = 0

    def merge_into(self, agg: dict):
        agg["sched_calls"] = agg.get("sched_calls", 0) + self.calls
        agg["tasks"] = agg.get("tasks", 0) + self.tasks
        agg["events"] = agg.get("events", 0) + self.events
        agg["nontrivial_calls"] = agg.get("nontrivial_calls", 0) + self.nontrivial_calls
        agg["purity_checked"] = agg.get("purity_checked", 0) + self.purity_checked
        agg["idem_checked"] = agg.get("idem_checked", 0) + self.idem_checked
        for k, v in self.fault.items():
            agg.setdefault("faults", {})
            agg["faults"][k] = agg["faults"].get(k, 0) + v


class SimScheduler:
    def __init__(self, seed: int, cfg: Config | None = None):
        self.seed = seed
        self.cfg = cfg or Config()
        self.stats = Stats()
        self.op = "-"                  # label of the current simulated operation (set by machines)
        self.call_log: list[dict] = []  # one record per get call: op, site, n_tasks, digest
        self.monitor_failures: list[str] = []   # purity / idempotence findings
        self._op_calls = defaultdict(int)
        self.enabled = True
        self.trace_events = False
        self.event_log: list[str] = []

    # -- public -------------------------------------------------------------------------------
    def calls_since(self, mark: int) -> list[dict]:
        return self.call_log[mark:]

    def mark(self) -> int:
        return len(self.call_log)

    def get(self, dsk, keys, **kwargs):
        site = call_site()
        idx = self._op_calls[self.op]
        self._op_calls[self.op] += 1
        rng = seeds.stream(self.seed, f"sched/{self.op}/{idx}")
        g = dsk if isinstance(dsk, dict) else dsk.__dask_graph__()
        g = convert_legacy_graph(g)
        rec = {"op": self.op, "site": f"{site[0]}:{site[1]}", "n": len(g), "i": idx}
        self.call_log.append(rec)
        self.stats.calls += 1
        self.stats.sites[(site[0], site[1], self.op)] += 1
        result = self._run(g, keys, rng, rec)
        return result

    # -- the simulated worker pool -----------------------------------------------------------------
    def _labels(self, g) -> dict:
        labels: dict = {}
        order = []
        # iterative post-order
        seen = set()
        for root in g:
            if root in seen:
                continue
            stack = [(root, False)]
            while stack:
                k, done = stack.pop()
                if done:
                    order.append(k)
                    continue
                if k in seen:
                    continue
                seen.add(k)
                stack.append((k, True))
                t = g.get(k)
                if t is not None:
                    for d in t.dependencies:
                        if d not in seen and d in g:
                            stack.append((d, False))
        for k in order:
            t = g[k]
            base = key_split(k)
            if isinstance(base, str) and "-hlgfinalizecompute" in base:
                base = base.split("-hlgfinalizecompute")[0]
            idx = k[1:] if isinstance(k, tuple) else ()
            deps = sorted(labels.get(d, "ext") for d in t.dependencies)
            if isinstance(t, DataNode):
                body = "data:" + _lit(t.value)
            elif isinstance(t, Alias):
                body = "alias"
            elif isinstance(t, Task):
                fn = getattr(t.func, "__name__", type(t.func).__name__)
                body = f"task:{fn}:" + ",".join(_lit(a) for a in t.args[:8])
            else:
                body = type(t).__name__
            labels[k] = f"{base}{list(idx)}#" + _h(base, idx, body, *deps)
        # disambiguate structurally identical tasks deterministically
        by = defaultdict(list)
        for k, lab in labels.items():
            by[lab].append(k)
        for lab, ks in by.items():
            if len(ks) > 1:
                for n, k in enumerate(sorted(ks, key=str)):
                    labels[k] = f"{lab}~{n}"
        return labels

    def _run(self, g, keys, rng, rec):
        cfg = self.cfg
        st = self.stats
        wanted = set(flatten(keys)) if isinstance(keys, list) else {keys}
        labels = self._labels(g)
        cache: dict = {}
        deps = {k: set(d for d in t.dependencies) for k, t in g.items()}
        for k, ds in deps.items():
            for d in ds:
                if d not in g:
                    raise SimHarnessError(f"missing dependency {d!r} of {k!r}")
        # restrict to what is needed for the wanted keys
        need = set()
        stack = list(wanted)
        while stack:
            k = stack.pop()
            if k in need:
                continue
            if k not in g:
                raise SimHarnessError(f"requested key {k!r} not in graph")
            need.add(k)
            stack.extend(deps[k])
        dependents = defaultdict(set)
        for k in need:
            for d in deps[k]:
                dependents[d].add(k)
        waiting = {k: set(deps[k]) for k in need}
        ready = sorted((k for k in need if not waiting[k]), key=lambda k: labels[k])
        for k in ready:
            del waiting[k]
        running: dict = {}          # key -> (result, stall_counter)
        done = set()
        retries = defaultdict(int)
        trace = hashlib.blake2b(digest_size=10)
        starts = 0
        max_ready = len(ready)
        remaining = len(need)
        last_fault_at_start = 0
        # one-shot permanent fault: armed by the machine, it fires in the `permanent_call`-th scheduler call
        # made after arming (a compute() that issues several calls can thus be interrupted between them)
        permanent_at = None
        if cfg.permanent_at is not None:
            cfg.armed_calls += 1
            if cfg.armed_calls >= (cfg.permanent_call or 1):
                permanent_at = cfg.permanent_at
                cfg.permanent_at = None
                cfg.armed_calls = 0

        def log(ev, k, extra=""):
            s = f"{ev} {labels[k]} {extra}"
            trace.update(s.encode())
            st.events += 1
            if self.trace_events:
                self.event_log.append(s)

        def run_body(k):
            t = g[k]
            data = {d: cache[d] for d in deps[k]}
            check = cfg.purity > 0 and (cfg.purity >= 1 or rng.random() < cfg.purity)
            before = _value_digest(data) if check else None
            res = t(data)
            if check:
                st.purity_checked += 1
                after = _value_digest(data)
                if before != after:
                    self.monitor_failures.append(f"impure task {labels[k]}: mutated its inputs (op {self.op})")
            return res

        def finish(k):
            nonlocal remaining
            done.add(k)
            remaining -= 1
            for dep in sorted(dependents[k], key=lambda x: labels[x]):
                w = waiting.get(dep)
                if w is not None:
                    w.discard(k)
                    if not w:
                        del waiting[dep]
                        ready.append(dep)
            for d in deps[k]:
                if d not in wanted and all(x in done for x in dependents[d]):
                    cache.pop(d, None)

        while remaining > 0:
            can_start = bool(ready) and len(running) < cfg.W
            completable = sorted((k for k, v in running.items() if v[1] <= 0), key=lambda k: labels[k])
            if not can_start and not completable:
                if running:   # everything running is stalled: stalls only reorder, release them
                    for k in running:
                        running[k] = (running[k][0], 0)
                    continue
                raise SimHarnessError(f"no progress possible: {remaining} tasks remain, none ready (op {self.op})")
            max_ready = max(max_ready, len(ready))
            do_start = can_start and (not completable or rng.random() < 0.5)
            # every event ages the stalls
            for k in list(running):
                r, c = running[k]
                if c > 0:
                    running[k] = (r, c - 1)
            if do_start:
                ready.sort(key=lambda k: labels[k])
                k = ready.pop(rng.randrange(len(ready)))
                starts += 1
                if permanent_at is not None and starts == permanent_at:
                    st.fault["permanent"] += 1
                    log("PERMFAIL", k)
                    rec["digest"] = trace.hexdigest()
                    rec["fault"] = "permanent"
                    st.digests.append(rec["digest"])
                    exc = {"InjectedFault": InjectedFault, "MemoryError": MemoryError, "OSError": OSError}[cfg.permanent_exc]
                    raise exc(f"injected permanent failure of task {labels[k]}")
                if cfg.transient and retries[k] < cfg.retry_budget and rng.random() < cfg.transient:
                    retries[k] += 1
                    st.fault["transient"] += 1
                    last_fault_at_start = starts
                    log("TRANSIENT", k)
                    ready.append(k)
                    continue
                log("START", k)
                res = run_body(k)
                st.tasks += 1
                stall = 0
                if cfg.stall and rng.random() < cfg.stall:
                    stall = rng.randint(1, 6)
                    st.fault["stall"] += 1
                running[k] = (res, stall)
            else:
                k = completable[rng.randrange(len(completable))]
                res, _ = running.pop(k)
                if cfg.reexec and rng.random() < cfg.reexec and not isinstance(g[k], (Alias, DataNode)):
                    st.fault["reexec"] += 1
                    last_fault_at_start = starts
                    log("REEXEC", k)
                    res2 = run_body(k)
                    st.tasks += 1
                    st.idem_checked += 1
                    if not _close(res, res2):
                        self.monitor_failures.append(
                            f"non-idempotent task {labels[k]}: re-execution returned a different value (op {self.op})")
                    res = res2
                log("DONE", k)
                cache[k] = res
                finish(k)
            # bounded liveness: after the last fault, at most remaining+running+1 further starts
            if starts - last_fault_at_start > len(need) + 1:
                raise SimHarnessError("progress bound exceeded")
        rec["digest"] = trace.hexdigest()
        rec["max_ready"] = max_ready
        st.digests.append(rec["digest"])
        st.max_ready = max(st.max_ready, max_ready)
        if max_ready > 1:
            st.nontrivial_calls += 1
        return _nested_get(keys, cache)


def _nested_get(ind, coll):
    if isinstance(ind, list):
        return tuple(_nested_get(i, coll) for i in ind)
    return coll[ind]
